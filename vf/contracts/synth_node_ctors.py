"""Contracts for the convenience constructors of sc3/synth/node.py (C17: "Creating an object emits its creation command
with the object's own id ..."): each of them is exactly ONE ordinary construction with the documented add action.

  AbstractGroup.after/before/head/tail/replace(target)           cls(target, 'addAfter' | 'addBefore' | 'addToHead' | 'addToTail' | 'addReplace')
  Synth.after/before/head/tail(target, def_name, args)           cls(def_name, args, target, the same four actions)
  Synth.replace(target, def_name, args, same_id)                 a synth object for the target's server - with the target's id
                                                                 iff same_id, else a fresh one - and ONE /s_new with the synth's
                                                                 own name and id, add action 4 (replace), the target's id, and
                                                                 the arguments as an OSC argument list

(The ordinary constructors Group.__init__ / Synth.__init__ are under contract in synth_node_cmds.)
"""
import z3
from vf.pyvc.spec import contract
from vf.pyvc.values import *
from vf.pyvc.engine import Raised, Unsupported

F = 'sc3/synth/node.py'


def nc_construct(eng, f, args, kwargs, st, node):
    if f.k == 'class' and f.py in ('AbstractGroup', 'Synth', 'Group', 'ParGroup'):
        r = V('obj', oid='made')
        st.trace.append(('made', f.py, tuple(args), dict(kwargs), r))
        return [(st, r)]
    return None


def ctor_post(order, action):
    def post(c):
        made = [e for e in c.trace if e[0] == 'made']
        if len(made) != 1 or made[0][3] or c.resultv is not made[0][4]:
            return z3.BoolVal(False)
        a = made[0][2]
        if len(a) != len(order) + 1:
            return z3.BoolVal(False)
        ok = all(a[i] is c._params[nm] for i, nm in enumerate(order)) and a[-1].k == 'str' and a[-1].py == action
        return z3.BoolVal(bool(ok))
    return post


ACTIONS = {'after': 'addAfter', 'before': 'addBefore', 'head': 'addToHead', 'tail': 'addToTail'}
for _m, _a in dict(ACTIONS, replace='addReplace').items():
    contract(F, 'AbstractGroup.' + _m, props=('C17',), params={'cls': 'cls', 'target': 'obj'},
             ensures=[('one-ordinary-construction-with-the-documented-add-action', ctor_post(['target'], _a))],
             fields={'AbstractGroup': {}}, class_modules={'AbstractGroup': F}, hooks={'construct': nc_construct},
             modifies=[], native=False)
for _m, _a in ACTIONS.items():
    contract(F, 'Synth.' + _m, props=('C17',), params={'cls': 'cls', 'target': 'obj', 'def_name': 'obj', 'args': 'obj'},
             ensures=[('one-ordinary-construction-with-the-documented-add-action', ctor_post(['def_name', 'args', 'target'], _a))],
             fields={'Synth': {}}, class_modules={'Synth': F}, hooks={'construct': nc_construct}, modifies=[], native=False)


# ---- Node.basic_new / Synth.basic_new ------------------------------------------------------------------------------------------
# the object's server is the one given, else the default server; its id is the one given, else ONE fresh id from THAT
# server's allocator (never from another server's); nothing is sent.  (What group and watch flags start as is no property's.)
# Synth.basic_new: the same object with the definition name on it.
GIVEN_SERVER = z3.Bool('a_server_is_given')


def bn_getattr(eng, obj, name, st, node):
    if obj.k == 'class' and name == '__new__':
        def new(eng, a, kw, st, node, _c=obj):
            oid = 'the-new-node'
            st.objs[oid] = {}
            st.trace.append(('allocated-object', _c.py))
            return [(st, V('ref', cls='Node', oid=oid))]
        return [(st, V('func', py=('spec', new)))]
    if obj.k == 'obj' and obj.oid == 'super' and name == '__init__':
        def init(eng, a, kw, st, node):
            return [(st, NONE)]
        return [(st, V('func', py=('spec', init)))]
    if obj.k == 'module' and name in ('NodeParameter', 'Server'):
        return [(st, V('obj', oid=name))]
    if obj.k == 'obj' and obj.oid == 'Server' and name == 'default':
        return [(st, V('obj', oid='Server.default'))]
    if obj.k == 'obj' and obj.oid in ('server', 'Server.default', 'the-server') and name == '_next_node_id':
        def nid(eng, a, kw, st, node, _o=obj):
            z = z3.Int('fresh_id!%d' % next(eng.counter))
            st.trace.append(('fresh-id', _o, z))
            return [(st, vint(z))]
        return [(st, V('func', py=('spec', nid)))]
    return None


def bn_builtin(eng, name, args, kwargs, st, node):
    if name == 'super':
        return [(st, V('obj', oid='super'))]
    return None


def bn_truth(eng, v, st, node):
    if v.k == 'obj' and v.oid == 'server':
        return GIVEN_SERVER
    return None


def basic_new_post(c):
    r = c.resultv
    if r.k != 'ref' or r.oid != 'the-new-node':
        return z3.BoolVal(False)
    o = c.st.objs.get('the-new-node', {})
    srv, nid = o.get('server'), o.get('node_id')
    fresh = [e for e in c.trace if e[0] == 'fresh-id']
    if srv is None or nid is None or len([e for e in c.trace if e[0] == 'allocated-object']) != 1:
        return z3.BoolVal(False)
    cl = []
    if c.kinds.get('server') == 'none':
        cl.append(z3.BoolVal(srv.k == 'obj' and srv.oid == 'Server.default'))
    elif srv is c._params['server']:
        cl.append(GIVEN_SERVER)
    else:
        cl += [z3.Not(GIVEN_SERVER), z3.BoolVal(srv.k == 'obj' and srv.oid == 'Server.default')]
    if c.kinds.get('node_id') == 'none':
        same = lambda a, b: a is b or (a.k == b.k == 'obj' and a.oid == b.oid)
        ok = len(fresh) == 1 and same(fresh[0][1], srv) and nid.k == 'int'
        cl.append(z3.BoolVal(bool(ok)))
        if ok:
            cl.append(nid.z == fresh[0][2])                                   # ONE fresh id, from the object's OWN server
    else:
        cl += [z3.BoolVal(not fresh and nid is c._params['node_id'])]
    cl.append(z3.BoolVal(not [e for e in c.trace if e[0] == 'send_msg']))
    return z3.And(*cl)


NODEF = {'server': 'obj', 'node_id': 'obj', 'group': 'obj', '_is_playing': 'obj', '_is_running': 'obj', 'def_name': 'obj'}
contract(F, 'Node.basic_new', props=('C17',), params={'cls': 'cls', 'server': ['none', 'obj'], 'node_id': ['none', 'int']},
         ensures=[('given-or-default-server;given-id-or-ONE-fresh-id-from-that-server;nothing-sent', basic_new_post)],
         fields={'Node': NODEF}, class_modules={'Node': F},
         hooks={'getattr': bn_getattr, 'builtin_first': bn_builtin, 'truth': bn_truth}, native=False)


def sbn_basic(eng, selfv, args, kwargs, st, node):
    oid = 'the-new-node'
    st.objs[oid] = {}
    st.trace.append(('node-basic-new', tuple(args), dict(kwargs)))
    return [(st, V('ref', cls='Node', oid=oid))]


def sbn_getattr(eng, obj, name, st, node):
    if obj.k == 'obj' and obj.oid == 'super' and name == 'basic_new':
        def bn(eng, a, kw, st, node):
            return sbn_basic(eng, None, a, kw, st, node)
        return [(st, V('func', py=('spec', bn)))]
    return None


def synth_basic_new_post(c):
    r = c.resultv
    bn = [e for e in c.trace if e[0] == 'node-basic-new']
    if r.k != 'ref' or r.oid != 'the-new-node' or len(bn) != 1:
        return z3.BoolVal(False)
    a, kw = bn[0][1], bn[0][2]
    got = dict(zip(['server', 'node_id'], a)); got.update(kw)
    o = c.st.objs.get('the-new-node', {})
    ok = got.get('server') is c._params['server'] and got.get('node_id') is c._params['node_id'] \
        and o.get('def_name') is c._params['def_name']
    return z3.BoolVal(bool(ok))


contract(F, 'Synth.basic_new', props=('C17',), params={'cls': 'cls', 'def_name': 'obj', 'server': 'obj', 'node_id': 'obj'},
         ensures=[('the-node-object-for-(server,id)-with-the-definition-name-on-it', synth_basic_new_post)],
         fields={'Node': NODEF, 'Synth': NODEF}, class_modules={'Node': F, 'Synth': F},
         hooks={'getattr': sbn_getattr, 'builtin_first': bn_builtin}, native=False)


# ---- Synth.replace ---------------------------------------------------------------------------------------------------------------
from vf.pyvc import values as _VV


def rp_basic_new(eng, selfv, args, kwargs, st, node):
    st.trace.append(('basic-new', tuple(args), dict(kwargs)))
    nid = z3.Int('synth.node_id')
    return [(st, V('ref', cls='NewSynth', oid='synth'))]


def rp_param(eng, selfv, args, kwargs, st, node):
    return [(st, V('obj', oid='param', extra={'of': args[0]}))]


def rp_getattr(eng, obj, name, st, node):
    if obj.k == 'obj' and str(obj.oid).endswith('.server') and name == 'addr':
        return [(st, V('obj', oid='addr-of:' + str(obj.oid)))]
    if obj.k == 'obj' and str(obj.oid).startswith('addr-of:') and name == 'send_msg':
        def send(eng, a, kw, st, node, _o=obj):
            st.trace.append(('send_msg', _o.oid, tuple(a)))
            return [(st, NONE)]
        return [(st, V('func', py=('spec', send)))]
    if obj.k == 'obj' and obj.oid == 'param' and name == '_as_osc_arg_list':
        def conv(eng, a, kw, st, node, _o=obj):
            st.trace.append(('converted', _o.extra['of']))
            return [(st, vlist([V('any', z3.Const('arg0', _VV.Any)), V('any', z3.Const('arg1', _VV.Any))]))]
        return [(st, V('func', py=('spec', conv)))]
    return None


def rp_truth(eng, v, st, node):
    if v.k == 'obj' and v.oid == 'args':
        return z3.Bool('args_given_and_not_empty')
    return None


def replace_post(c):
    t = c.trace
    bn = [e for e in t if e[0] == 'basic-new']
    s = [e for e in t if e[0] == 'send_msg']
    cv = [e for e in t if e[0] == 'converted']
    if len(bn) != 1 or len(s) != 1 or len(cv) != 1 or not (c.resultv.k == 'ref' and c.resultv.oid == 'synth'):
        return z3.BoolVal(False)
    a, kw = bn[0][1], bn[0][2]
    got = dict(zip(['def_name', 'server', 'node_id'], a)); got.update(kw)
    srv, nid = got.get('server'), got.get('node_id')
    if got.get('def_name') is not c._params['def_name'] or srv is None or not (srv.k == 'obj' and srv.oid == 'target.server') or nid is None:
        return z3.BoolVal(False)
    cl = []
    # the target's id iff same_id, else none given (basic_new then takes a fresh one)
    if nid.k == 'none':
        cl.append(z3.Not(c.same_id))
    elif nid.k == 'int':
        cl += [c.same_id, nid.z == c.pre.target.node_id]
    else:
        return z3.BoolVal(False)
    m = s[0][2]
    shape = (s[0][1] == 'addr-of:synth.server' and len(m) == 7 and m[0].k == 'str' and m[0].py == '/s_new'
             and m[1].k == 'obj' and m[1].oid == 'synth.def_name' and m[2].k == 'int' and m[3].k == 'int' and m[4].k == 'int'
             and m[5].k == 'any' and m[6].k == 'any' and str(m[5].z) == 'arg0' and str(m[6].z) == 'arg1')
    if not shape:
        return z3.BoolVal(False)
    given = z3.Bool('args_given_and_not_empty')
    src = cv[0][1]
    cl += [m[2].z == z3.Int('synth.node_id'), m[3].z == 4, m[4].z == c.pre.target.node_id]      # own id, replace (4), the target's id
    if src is c._params['args']:
        cl.append(given)
    else:
        cl += [z3.Not(given), z3.BoolVal(src.k in ('list',) and src.items == [])]
    return z3.And(*cl)


contract(F, 'Synth.replace', props=('C17',),
         params={'cls': 'cls', 'target': 'ref:Target', 'def_name': 'obj', 'args': 'obj', 'same_id': 'bool'},
         ensures=[('a-synth-for-the-targets-server(same-id-iff-asked);ONE-/s_new-name,own-id,4,target-id,converted-arguments', replace_post)],
         fields={'Target': {'server': 'obj', 'node_id': 'int'}, 'NewSynth': {'server': 'obj', 'node_id': 'int', 'def_name': 'obj'}, 'Synth': {}},
         class_modules={'Target': F, 'NewSynth': F, 'Synth': F},
         hooks={'getattr': rp_getattr, 'truth': rp_truth},
         policies={'Synth.basic_new': rp_basic_new, 'sc3/synth/_graphparam.py::node_param': rp_param}, modifies=[], native=False)


# ---- Node.mapn / mapan / _process_mn_args (C17: /n_mapn and /n_mapan: id, then (control, bus index, channel count) triples) ----------
# _process_mn_args: the arguments are taken in pairs (control, bus), in order; every pair contributes exactly one triple at
# the END of the data: the control as a control input, then (bus, 1) for a bus given as a number or (bus.index,
# bus.channels) for a bus object.   mapn / mapan: ONE message through the node's own server: the command name, the node's
# own id, then exactly that data.
from vf.pyvc.spec import Loop
NPAIRS = z3.Int('pairs.len')
BUS_IS_INT = z3.Function('bus_is_a_number', z3.IntSort(), z3.BoolSort())


def mn_clumps(eng, selfv, args, kwargs, st, node):
    src, n = args[0], args[1]
    two = n.k == 'int' and z3.is_true(z3.simplify(n.z == 2))
    st.trace.append(('paired', src, bool(two)))

    def get(e_, i, s_):
        return vtuple([V('obj', oid='control', extra={'index': i}), V('obj', oid='bus', extra={'index': i})])
    return [(st, V('seq', extra={'len': NPAIRS, 'facts': [NPAIRS >= 0], 'pairs-of': src, 'get': get}))]


def mn_builtin(eng, name, args, kwargs, st, node):
    if name == 'isinstance' and len(args) == 2 and args[0].k == 'obj' and args[0].oid == 'bus':
        return [(st, vbool(BUS_IS_INT(args[0].extra['index'])))]
    return None


def mn_param(eng, selfv, args, kwargs, st, node):
    return [(st, V('obj', oid='param', extra={'of': args[0]}))]


def mn_getattr(eng, obj, name, st, node):
    if obj.k == 'obj' and obj.oid == 'param' and name == '_as_control_input':
        def conv(eng, a, kw, st, node, _o=obj):
            return [(st, V('obj', oid='control-input', extra={'of': _o.extra['of']}))]
        return [(st, V('func', py=('spec', conv)))]
    if obj.k == 'obj' and obj.oid == 'bus' and name in ('index', 'channels'):
        return [(st, V('obj', oid='bus.' + name, extra={'index': obj.extra['index']}))]
    if obj.k == 'obj' and obj.extra is not None and obj.extra.get('data-list') and name == 'extend':
        def ext(eng, a, kw, st, node, _o=obj):
            st.trace.append(('extended', _o, a[0]))
            return [(st, NONE)]
        return [(st, V('func', py=('spec', ext)))]
    return None


def mn_new_list(eng, items, st):
    if not items:
        return V('obj', oid='data!%d' % next(eng.counter), extra={'data-list': True})
    return None


def mn_since(trace):
    idx = max([i for i, e in enumerate(trace) if e[0] == 'loop-head'] or [-1])
    return trace[idx + 1:] if idx >= 0 else None


def mn_pass(c, L):
    ev = mn_since(c.trace)
    if not ev or L.phase != 'after':
        return z3.BoolVal(True)
    ex = [e for e in ev if e[0] == 'extended']
    if len(ex) != 1 or ex[0][2].k != 'list' or ex[0][2].items is None or len(ex[0][2].items) != 3:
        return z3.BoolVal(False)
    ctl, b, n = ex[0][2].items
    i = L.i - 1
    if not (ctl.k == 'obj' and ctl.oid == 'control-input' and ctl.extra['of'].k == 'obj' and ctl.extra['of'].oid == 'control'):
        return z3.BoolVal(False)
    cl = [ctl.extra['of'].extra['index'] == i]
    if b.k == 'obj' and b.oid == 'bus':
        one = n.k == 'int' and z3.is_true(z3.simplify(n.z == 1))
        cl += [BUS_IS_INT(i), b.extra['index'] == i, z3.BoolVal(bool(one))]                    # a number: that bus, one channel
    elif b.k == 'obj' and b.oid == 'bus.index' and n.k == 'obj' and n.oid == 'bus.channels':
        cl += [z3.Not(BUS_IS_INT(i)), b.extra['index'] == i, n.extra['index'] == i]          # a bus object: its index and width
    else:
        return z3.BoolVal(False)
    return z3.And(*cl)


def mn_over(c, seq, k, elem):
    return z3.BoolVal(bool(seq.k == 'seq' and seq.extra.get('pairs-of') is c._params['tpl'])), z3.BoolVal(True)


def mn_post(c):
    paired = [e for e in c.trace if e[0] == 'paired']
    ex = [e for e in c.trace if e[0] == 'extended']
    r = c.resultv
    ok = (len(paired) == 1 and paired[0][2] and paired[0][1] is c._params['tpl'] and r.k == 'obj' and (r.extra or {}).get('data-list')
          and all(e[1] is r for e in ex))                                                      # ONE data list, the one returned
    return z3.BoolVal(bool(ok))


contract(F, 'Node._process_mn_args', props=('C17',), params={'tpl': 'obj'},
         ensures=[('pairs-of-the-arguments;one-data-list,returned', mn_post)],
         loops={0: Loop(inv=mn_pass, over=mn_over, kinds={'control': 'obj', 'bus': 'obj'})},
         fields={'Node': {}}, class_modules={'Node': F},
         hooks={'builtin_first': mn_builtin, 'getattr': mn_getattr, 'new_list': mn_new_list},
         policies={'sc3/base/utils.py::gen_cclumps': mn_clumps, 'sc3/synth/_graphparam.py::node_param': mn_param},
         modifies=[], native=False)


def mm_process(eng, selfv, args, kwargs, st, node):
    r = V('obj', oid='processed-data')
    st.trace.append(('processed', tuple(args), r))
    return [(st, r)]


def mm_binop(eng, op, a, b, st, node):
    import ast
    if isinstance(op, ast.Add) and a.k == 'list' and b.k == 'obj' and b.oid == 'processed-data':
        return [(st, V('obj', oid='head+data', extra={'head': a, 'data': b}))]
    return None


def mm_getattr(eng, obj, name, st, node):
    if obj.k == 'obj' and str(obj.oid).endswith('.server') and name == 'addr':
        return [(st, V('obj', oid='addr-of:' + str(obj.oid)))]
    if obj.k == 'obj' and str(obj.oid).startswith('addr-of:') and name == 'send_msg':
        def send(eng, a, kw, st, node, _o=obj):
            st.trace.append(('send_msg', _o.oid, tuple(a)))
            return [(st, NONE)]
        return [(st, V('func', py=('spec', send)))]
    return None


def mapn_post(cmd):
    def post(c):
        pr = [e for e in c.trace if e[0] == 'processed']
        s = [e for e in c.trace if e[0] == 'send_msg']
        if len(pr) != 1 or len(s) != 1 or s[0][1] != 'addr-of:self.server':
            return z3.BoolVal(False)
        a = s[0][2]
        if len(pr[0][1]) != 1 or pr[0][1][0] is not c._params['args'] or len(a) != 1 or a[0].k != 'star':
            return z3.BoolVal(False)
        whole = a[0].extra['seq']
        if not (whole.k == 'obj' and whole.oid == 'head+data' and whole.extra['data'] is pr[0][2]):
            return z3.BoolVal(False)
        head = whole.extra['head']
        if head.items is None or len(head.items) != 2 or head.items[0].k != 'str' or head.items[0].py != cmd or head.items[1].k != 'int':
            return z3.BoolVal(False)
        return head.items[1].z == c.pre.self.node_id                                          # the command, the node's OWN id, the data
    return post


def margs_kind(eng, name):
    return V('obj', oid='args')


for _m, _cmd in (('mapn', '/n_mapn'), ('mapan', '/n_mapan')):
    contract(F, 'Node.' + _m, props=('C17',), params={'self': 'self', 'args': margs_kind},
             ensures=[('one-message:command,own-id,then-exactly-the-processed-pairs', mapn_post(_cmd))],
             fields={'Node': {'server': 'obj', 'node_id': 'int'}}, class_modules={'Node': F},
             hooks={'getattr': mm_getattr, 'binop': mm_binop}, policies={'Node._process_mn_args': mm_process},
             modifies=[], native=False)
