"""Contracts for the conversions every pattern relies on (C13: "sub-patterns embedded in place"; C15: values lift to
streams), sc3/base/stream.py:

  stream(obj)        an object that knows how (__stream__) makes its own stream - asked once; a dictionary becomes a
                     DictionaryStream of it, anything else a ValueStream of it
  embed(obj, inval)  an object that knows how (__embed__) is asked once, with the input value; a dictionary / anything
                     else is embedded as the DictionaryStream / ValueStream of it, with the input value
  Stream.__embed__   every pass draws ONE value from the stream itself with the current input value and yields exactly
                     that; the end of the stream ends the embedding, which returns the last input value
  ValueStream.__embed__       yields its value once and returns what is sent back
  DictionaryStream.__embed__  no input: as a value; else a COPY of the input updated with its dictionary is yielded (the
                     input itself is not written to)
"""
import z3
from vf.pyvc.spec import contract, Loop
from vf.pyvc.values import *
from vf.pyvc import values as VV
from vf.pyvc.engine import Raised, Unsupported

F = 'sc3/base/stream.py'
KNOWS = z3.Bool('object_has_the_method')
IS_DICT = z3.Bool('object_is_a_dict')


def cv_builtin(eng, name, args, kwargs, st, node):
    if name == 'hasattr' and len(args) == 2 and args[1].k == 'str' and args[1].py in ('__stream__', '__embed__'):
        st.trace.append(('asked-for', args[1].py))
        return [(st, vbool(KNOWS))]
    if name == 'isinstance' and len(args) == 2 and args[0].k == 'obj' and args[0].oid == 'obj':
        return [(st, vbool(IS_DICT))]
    return None


def cv_getattr(eng, obj, name, st, node):
    if obj.k == 'obj' and obj.oid == 'obj' and name in ('__stream__', '__embed__'):
        def m(eng, a, kw, st, node, _n=name):
            r = V('obj', oid='own-' + _n)
            st.trace.append(('own', _n, tuple(a), r))
            return [(st, r)]
        return [(st, V('func', py=('spec', m)))]
    if obj.k == 'obj' and obj.oid == 'made-stream' and name == '__embed__':
        def m(eng, a, kw, st, node, _o=obj):
            r = V('obj', oid='embedding', extra={'of': _o, 'args': tuple(a)})
            st.trace.append(('embed-of-made', _o, tuple(a), r))
            return [(st, r)]
        return [(st, V('func', py=('spec', m)))]
    return None


def cv_construct(eng, f, args, kwargs, st, node):
    if f.k == 'class' and f.py in ('DictionaryStream', 'ValueStream'):
        r = V('obj', oid='made-stream', extra={'cls': f.py, 'args': tuple(args)})
        st.trace.append(('made', f.py, tuple(args), r))
        return [(st, r)]
    return None


def stream_post(c):
    own = [e for e in c.trace if e[0] == 'own']
    made = [e for e in c.trace if e[0] == 'made']
    r = c.resultv
    if own:
        ok = len(own) == 1 and own[0][1] == '__stream__' and not own[0][2] and not made and r is own[0][3]
        return z3.And(KNOWS, z3.BoolVal(bool(ok)))
    if len(made) != 1 or r is not made[0][3] or len(made[0][2]) != 1 or made[0][2][0] is not c._params['obj']:
        return z3.BoolVal(False)
    return z3.And(z3.Not(KNOWS), z3.BoolVal(made[0][1] == 'DictionaryStream') == IS_DICT,
                  z3.BoolVal(made[0][1] == 'ValueStream') == z3.Not(IS_DICT))


contract(F, 'stream', props=('C13', 'C15'), params={'obj': 'obj'},
         ensures=[('own-stream-if-it-knows-how,else-dictionary-or-value-stream-of-it', stream_post)],
         hooks={'builtin_first': cv_builtin, 'getattr': cv_getattr, 'construct': cv_construct}, modifies=[], native=False)


def embed_post(c):
    own = [e for e in c.trace if e[0] == 'own']
    made = [e for e in c.trace if e[0] == 'made']
    em = [e for e in c.trace if e[0] == 'embed-of-made']
    r = c.resultv
    inval = c._params['inval']
    if own:
        ok = len(own) == 1 and own[0][1] == '__embed__' and len(own[0][2]) == 1 and own[0][2][0] is inval \
            and not made and r is own[0][3]
        return z3.And(KNOWS, z3.BoolVal(bool(ok)))
    ok = len(made) == 1 and len(em) == 1 and em[0][1] is made[0][3] and len(em[0][2]) == 1 and em[0][2][0] is inval \
        and r is em[0][3] and len(made[0][2]) == 1 and made[0][2][0] is c._params['obj']
    if not ok:
        return z3.BoolVal(False)
    return z3.And(z3.Not(KNOWS), z3.BoolVal(made[0][1] == 'DictionaryStream') == IS_DICT,
                  z3.BoolVal(made[0][1] == 'ValueStream') == z3.Not(IS_DICT))


contract(F, 'embed', props=('C13', 'C15'), params={'obj': 'obj', 'inval': 'obj'},
         ensures=[('own-embedding-with-the-input-if-it-knows-how,else-that-of-its-dictionary-or-value-stream', embed_post)],
         hooks={'builtin_first': cv_builtin, 'getattr': cv_getattr, 'construct': cv_construct}, modifies=[], native=False)


# ---- Stream.__embed__ -----------------------------------------------------------------------------------------------------------
def se_getattr(eng, obj, name, st, node):
    if obj.k == 'ref' and obj.oid == 'self' and name == 'next':
        def nxt(eng, args, kwargs, st, node):
            ok, bad = st, st.fork()
            v = V('obj', oid='drawn!%d' % next(eng.counter))
            ok.trace.append(('draw', v, tuple(args)))
            bad.trace.append(('exhausted',))
            return [(ok, v), (bad, Raised(eng.make_exc('StopStream', node=node)))]
        return [(st, V('func', py=('spec', nxt)))]
    return None


def remember_inval(eng, st):
    st.ghost = dict(st.ghost)
    st.ghost['inval_at_head'] = st.env.get('inval')


def se_since(trace):
    idx = max([i for i, e in enumerate(trace) if e[0] == 'loop-head'] or [-1])
    return trace[idx + 1:] if idx >= 0 else None


def se_pass(c, L):
    ev = se_since(c.trace)
    if not ev or L.phase != 'after':
        return z3.BoolVal(True)
    evs = [e for e in ev if e[0] in ('draw', 'yield', 'exhausted')]
    if [e[0] for e in evs] != ['draw', 'yield']:
        return z3.BoolVal(False)
    d, y = evs
    return z3.BoolVal(len(d[2]) == 1 and d[2][0] is c.st.ghost.get('inval_at_head') and y[1] is d[1])


def se_post(c):
    ys = [i for i, e in enumerate(c.trace) if e[0] == 'yield']
    ex = [i for i, e in enumerate(c.trace) if e[0] == 'exhausted']
    return z3.BoolVal(bool(ex) and all(i < ex[0] for i in ys) and c.resultv is c.st.env['inval'])


contract(F, 'Stream.__embed__', props=('C13',), params={'self': 'self', 'inval': 'obj'},
         ensures=[('ends-with-the-stream,quietly,returning-the-last-input-value', se_post)],
         loops={0: Loop(inv=se_pass, kinds={'inval': 'obj'}, havoc_hook=remember_inval)},
         fields={'Stream': {}}, class_modules={'Stream': F}, hooks={'getattr': se_getattr},
         opts={'generator_trace': True}, native=False)


# ---- ValueStream / DictionaryStream.__embed__ -----------------------------------------------------------------------------------
def vs_post(c):
    ys = [e for e in c.trace if e[0] == 'yield']
    v = c.pre.self.v('value')
    ok = len(ys) == 1 and (ys[0][1] is v or (ys[0][1].k == v.k == 'obj' and ys[0][1].oid == v.oid))
    sent = ys[0][2] if ys and len(ys[0]) > 2 else None
    return z3.BoolVal(bool(ok) and (sent is None or c.resultv is sent))


contract(F, 'ValueStream.__embed__', props=('C13',), params={'self': 'self', 'inval': 'obj'},
         ensures=[('its-value-once;returns-what-is-sent-back', vs_post)],
         fields={'ValueStream': {'value': 'obj'}}, class_modules={'ValueStream': F},
         opts={'generator_trace': True}, modifies=[], native=False)


def ds_getattr(eng, obj, name, st, node):
    if obj.k == 'obj' and obj.oid == 'indict' and name == 'copy':
        def cp(eng, a, kw, st, node):
            r = V('obj', oid='copy-of-indict')
            st.trace.append(('copied', r))
            return [(st, r)]
        return [(st, V('func', py=('spec', cp)))]
    if obj.k == 'obj' and name == 'update':
        def up(eng, a, kw, st, node, _o=obj):
            st.trace.append(('updated', _o, tuple(a)))
            return [(st, NONE)]
        return [(st, V('func', py=('spec', up)))]
    return None


def ds_post(c):
    ys = [e for e in c.trace if e[0] == 'yield']
    ups = [e for e in c.trace if e[0] == 'updated']
    cps = [e for e in c.trace if e[0] == 'copied']
    v = c.pre.self.v('value')
    same = lambda a, b: a is b or (a.k == b.k == 'obj' and a.oid == b.oid)
    if len(ys) != 1:
        return z3.BoolVal(False)
    if c.kinds.get('indict') == 'none':
        return z3.BoolVal(same(ys[0][1], v) and not ups and not cps)
    ok = (len(cps) == 1 and len(ups) == 1 and ups[0][1] is cps[0][1] and len(ups[0][2]) == 1 and same(ups[0][2][0], v)
          and ys[0][1] is cps[0][1] and c.trace.index(ups[0]) < c.trace.index(ys[0]))
    return z3.BoolVal(bool(ok))                          # the COPY is updated and yielded: the input dictionary is not written to


contract(F, 'DictionaryStream.__embed__', props=('C13',), params={'self': 'self', 'indict': ['none', 'obj']},
         ensures=[('no-input:its-dictionary;else-a-copy-of-the-input-updated-with-it', ds_post)],
         fields={'DictionaryStream': {'value': 'obj'}}, class_modules={'DictionaryStream': F, 'ValueStream': F},
         hooks={'getattr': ds_getattr}, opts={'generator_trace': True}, modifies=[], native=False)
