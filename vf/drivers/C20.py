# C20 -- Definition builds are deterministic, isolated and leave no residue.
#
#   /venv/bin/python -m vf.drivers.C20 --tier quick --seed 0 --out f.json
#
# Contract: bytes(SynthDef(name, func, ...).as_bytes()) is a function of the
# graph function and the build arguments only.  Sub-checks
#   repeat      the same function built 3 times in a row
#   histories   every sequence (length <= 3, thorough <= 4) over two good builds
#               and the failing builds (error raised by the graph function, by
#               the input checks, by the optimiser if this tree has such a
#               program, by the writer): after every step the build context is
#               clear (units created outside a build belong to no definition,
#               SynthDef.wrap outside a build is refused), the build lock is
#               free (a build in a fresh thread completes within a timeout) and
#               the good builds still give their reference bytes
#   threads     2..8 threads, each building its own functions concurrently
#               (some threads also run failing builds / the description
#               reader): every result equals the sequential result
#   hashseed    subprocesses with several PYTHONHASHSEED values, different
#               build orders and different earlier use of the library
#   modes       a subprocess in real-time mode (sc3.init('rt'))
import hashlib
import json
import os
import random
import subprocess
import sys
import threading
import time

from vf.common import Report, driver_main, wants, silence_sc3_logging, REPO, VERIF
from vf.specs import graphgen as gg
from vf.drivers import C02

LOCK_TIMEOUT = 20.0


def _init_sc3(mode='nrt'):
    import warnings
    warnings.simplefilter('ignore')
    silence_sc3_logging()
    import sc3
    sc3.init(mode)
    gg.install_bytesio_guard()


# ---------------------------------------------------------------------------
# corpus of build specs (data, deterministic in the seed)

def _hand(i):
    """Hand-written functions with build arguments (rates, prepend, variants,
    metadata)."""
    from sc3.synth.ugens import (SinOsc, Out, LFNoise0, Pan2, In, EnvGen,
                                 LocalBuf, FFT, IFFT, PV_MagAbove, RandSeed)
    from sc3.synth.envelope import Env
    if i == 0:
        def f(freq=440, amp=0.1, gate=1):
            env = EnvGen.kr(Env.adsr(), gate, done_action=2)
            Out.ar(0, Pan2.ar(SinOsc.ar(freq) * amp * env, 0))
        return ('hand0', f, {})
    if i == 1:
        def f(n, freq=440, lag=0.5, t=0):
            sig = sum(SinOsc.ar(freq * (k + 1)) for k in range(n))
            Out.ar(0, sig * lag + t)
        return ('hand1', f, {'rates': [0.2, 'ir', 'tr'], 'prepend': [5]})
    if i == 2:
        def f(freq=(100, 200, 300), amp=0.2, out=0):
            Out.ar(out, SinOsc.ar(freq).sum() * amp)
        return ('hand2', f, {'variants': {'a': {'amp': 0.5}, 'b': {'freq': [1, 2]},
                                          'c': {'out': 3, 'amp': 0.1}},
                             'metadata': {'x': {'k': 1, 'j': 2}}})
    if i == 3:
        def f(bus=0):
            RandSeed.kr(1, 42)
            b = LocalBuf.new(512, 1)
            c = FFT.kr(b, In.ar(bus, 1) + LFNoise0.ar(100))
            c = PV_MagAbove.new(c, 0.1)
            Out.ar(bus, IFFT.ar(c))
        return ('hand3', f, {})
    if i == 4:
        def f(a=1, b=2, c=3, d=4):
            x = {a, b, c, d}              # a Python set of UGens (id-hashed)
            s = SinOsc.ar(a) + SinOsc.ar(b) + SinOsc.ar(c) + SinOsc.ar(d)
            Out.ar(0, s * len(x))
        return ('hand4', f, {})
    raise IndexError(i)


NHAND = 5


def corpus(seed, n):
    """n build specs: graphgen random programs, structural programs (C02) and
    the hand-written ones."""
    rng = random.Random(seed)
    specs = [{'k': 'hand', 'i': i} for i in range(NHAND)]
    while len(specs) < n:
        r = rng.random()
        if r < 0.6:
            prog, _ = gg.random_wellformed(rng, max_ops=rng.choice((4, 8, 14)))
            specs.append({'k': 'gg', 'prog': prog})
        else:
            specs.append({'k': 'struct',
                          'spec': C02.random_struct_spec(rng, rng.choice(
                              (5, 15, 40, 120)))})
    return specs[:n]


def build_spec(spec):
    """-> bytes (raises what sc3 raises)."""
    from sc3.synth.synthdef import SynthDef
    if spec['k'] == 'hand':
        name, f, kw = _hand(spec['i'])
        return bytes(SynthDef(name, f, **kw).as_bytes())
    if spec['k'] == 'gg':
        return C02.build_any(spec['prog'], {})[1]
    if spec['k'] == 'struct':
        return C02.build_any(spec['spec'], {})[1]
    raise ValueError(spec)


def outcome(spec):
    """'sha1:<hex>' or 'EXC:<type>'."""
    try:
        b = build_spec(spec)
    except Exception as e:
        return 'EXC:' + type(e).__name__
    return 'sha1:' + hashlib.sha1(b).hexdigest()


# ---------------------------------------------------------------------------
# failing builds

class GraphError(Exception):
    pass


def failing_builds():
    """name -> callable that runs one build that is expected to raise; returns
    the exception (or None if nothing was raised)."""
    from sc3.synth.synthdef import SynthDef
    from sc3.synth.ugens import SinOsc, Out, LFNoise0, LocalBuf, In

    def run(f):
        try:
            f()
        except Exception as e:
            return e
        return None

    def func_raises_early():
        def g(freq=440):
            raise GraphError('boom')
        SynthDef('f1', g)

    def func_raises_late():
        def g(freq=440, amp=(1, 2)):
            s = SinOsc.ar(freq) * amp
            LocalBuf.new(64, 1)
            Out.ar(0, s)
            LFNoise0.kr(3)
            return 1 // 0
        SynthDef('f2', g)

    def input_check_rate():
        def g():
            Out.ar(0, LFNoise0.kr(3))
        SynthDef('f3', g)

    def input_check_nan():
        def g(a=1):
            Out.ar(0, SinOsc.ar(float('nan')) * a)
        SynthDef('f4', g)

    def bad_signature():
        def g(*args):
            Out.ar(0, SinOsc.ar(1))
        SynthDef('f5', g)

    def not_a_function():
        SynthDef('f6', 42)

    def writer_long_name():
        def g(freq=440):
            Out.ar(0, SinOsc.ar(freq))
        bytes(SynthDef('n' * 300, g).as_bytes())

    def writer_non_ascii():
        def g(freq=440):
            Out.ar(0, SinOsc.ar(freq))
        bytes(SynthDef('d\xe9f', g).as_bytes())

    def optimiser_or_ok():
        # raises on trees whose dead-code elimination trips over `s + s`;
        # elsewhere it is one more successful build
        def g():
            s = SinOsc.ar(101, 0)
            s + s
            Out.ar(0, s)
        SynthDef('f9', g)

    def wrap_raises():
        def inner(x=1):
            raise GraphError('inner')

        def g(freq=440):
            Out.ar(0, SinOsc.ar(freq))
            SynthDef.wrap(inner)
        SynthDef('f10', g)

    fs = [func_raises_early, func_raises_late, input_check_rate,
          input_check_nan, bad_signature, not_a_function, writer_long_name,
          writer_non_ascii, optimiser_or_ok, wrap_raises]
    return {f.__name__: (lambda f=f: run(f)) for f in fs}


MUST_RAISE = ('func_raises_early', 'func_raises_late', 'input_check_rate',
              'input_check_nan', 'bad_signature', 'not_a_function',
              'writer_long_name', 'writer_non_ascii', 'wrap_raises')


def residue():
    """-> list of problems observed right now (outside any build)."""
    from sc3.synth.synthdef import SynthDef
    from sc3.synth.ugens import SinOsc, LFNoise0, In
    from sc3.base import main as _m
    bad = []
    made = []
    try:
        made.append(SinOsc.ar(440))
        made.append(LFNoise0.kr(3))
        made.extend(In.ar(0, 2))
        made.append(made[0] * made[1])
    except Exception as e:
        bad.append('creating a unit outside a build raised %s' % type(e).__name__)
    for u in made:
        if getattr(u, '_synthdef', None) is not None:
            bad.append('unit %r created outside a build belongs to definition %r'
                       % (u, getattr(u._synthdef, 'name', u._synthdef)))
            break
    try:
        SynthDef.wrap(lambda: None)
        bad.append('SynthDef.wrap outside a build was accepted')
    except Exception:
        pass
    # repair for the rest of the exploration (after observing)
    if _m.main._current_synthdef is not None:
        _m.main._current_synthdef = None
    return bad


def lock_free(ref_spec, ref):
    """A build in a fresh thread completes in time and gives the reference."""
    from sc3.base import main as _m
    res = []

    def t():
        res.append(outcome(ref_spec))
    th = threading.Thread(target=t, daemon=True)
    th.start()
    th.join(LOCK_TIMEOUT)
    if th.is_alive():
        # repair so that the harness can go on, then report
        try:
            _m.main._def_build_lock.release()
        except RuntimeError:
            pass
        th.join(LOCK_TIMEOUT)
        return 'a build in another thread did not finish within %gs' % LOCK_TIMEOUT
    if res[0] != ref:
        return 'build in another thread gave %s, reference %s' % (res[0], ref)
    return None


# ---------------------------------------------------------------------------
# subprocess worker

def worker():
    spec = json.loads(os.environ['VF_C20_SPEC'])
    _init_sc3(spec['mode'])
    specs = corpus(spec['corpus_seed'], spec['n'])
    order = list(range(len(specs)))
    if spec['order'] == 'rev':
        order.reverse()
    elif spec['order'] == 'shuffle':
        random.Random(spec.get('order_seed', 1)).shuffle(order)
    if spec.get('warm'):
        # arbitrary earlier use of the library
        from sc3.synth.ugens import SinOsc, LFNoise0
        from sc3.synth.synthdesc import SynthDesc
        from sc3.synth.synthdef import SynthDef
        junk = [SinOsc.ar(i) * LFNoise0.kr(i) for i in range(50)]
        fb = failing_builds()
        for k in sorted(fb):
            fb[k]()
        for s in corpus(spec['corpus_seed'] + 1, 40):
            outcome(s)
        sd = SynthDef('warm', lambda a=1: None)
        SynthDesc.new_from(sd)
        residue()
    out = [None] * len(specs)
    for i in order:
        out[i] = outcome(specs[i])
    sys.stdout.write('\nC20RESULT ' + json.dumps(out) + '\n')
    sys.stdout.flush()
    os._exit(0)


def run_worker(spec, hashseed):
    env = dict(os.environ)
    env['VF_C20_SPEC'] = json.dumps(spec)
    env['PYTHONHASHSEED'] = str(hashseed)
    env['PYTHONPATH'] = VERIF + os.pathsep + REPO
    try:
        p = subprocess.run(
            [sys.executable, '-W', 'ignore', '-c',
             'from vf.drivers import C20; C20.worker()'],
            env=env, stdout=subprocess.PIPE, stderr=subprocess.PIPE,
            timeout=600, cwd=VERIF)
    except subprocess.TimeoutExpired:
        return None, 'timeout after 600 s'
    for line in p.stdout.decode('utf-8', 'replace').splitlines():
        if line.startswith('C20RESULT '):
            return json.loads(line[len('C20RESULT '):]), None
    return None, 'exit %s: %s' % (p.returncode,
                                  p.stderr.decode('utf-8', 'replace')[-400:])


# ---------------------------------------------------------------------------

def _sub_repeat(rep, specs, ref):
    n = 0
    for i, s in enumerate(specs):
        for k in range(2):
            n += 1
            o = outcome(s)
            if o != ref[i]:
                rep.violation(
                    obligation='C20.repeat',
                    what='build #%d of the same function differs' % (k + 2),
                    input=s, observed=o, expected=ref[i], key='C20.repeat:differs',
                    replay={'func': 'repeat', 'args': s})
    rep.bounded(name='repeat', function='SynthDef.__init__ + as_bytes',
                bound='%d functions (graphgen random programs, C02 structural '
                      'programs, %d hand-written with rates/prepend/variants/'
                      'metadata), 3 builds each' % (len(specs), NHAND),
                evaluations=n + len(specs), distinct_nontrivial=len(set(ref)),
                rule='outcome = sha1 of bytes or exception type; distinct = '
                     'distinct outcomes', samples=specs[5:8], exhaustive=False)


_RELOAD_FAIL = [False]


def _sub_reload(rep):
    """The same function OBJECT built again after its defaults, annotations or code were
    replaced in place (what a hot reload does): the bytes are those of the function as it is
    now, i.e. of an equal function object that was never built before."""
    from sc3.synth.synthdef import SynthDef
    fail = _RELOAD_FAIL

    def make(defaults, ann, saw=False):
        # no closure variables: the code objects are interchangeable
        if saw:
            def voice(freq=0, amp=0, pan=0):
                from sc3.synth.ugens import LFSaw, Out
                if _RELOAD_FAIL[0]:
                    raise GraphError('planned')
                Out.ar(0, LFSaw.ar(freq) * amp + pan)
        else:
            def voice(freq=0, amp=0):
                from sc3.synth.ugens import SinOsc, Out
                if _RELOAD_FAIL[0]:
                    raise GraphError('planned')
                Out.ar(0, SinOsc.ar(freq) * amp)
        voice.__defaults__ = defaults
        voice.__annotations__ = dict(ann)
        return voice

    steps = [((220, 0.1), {}, False, False), ((440, 0.2), {}, False, True),
             ((440, 0.2), {'freq': 'ir'}, False, False), ((1, (2, 3)), {'amp': 'tr'}, False, False),
             ((5, 6, 7), {}, True, True), ((220, 0.1), {}, False, False),
             ((220, 0.1), {'amp': 'ar'}, False, False)]
    one = make(*steps[0][:3])
    n = 0
    for k, (d, a, saw, fail_first) in enumerate(steps):
        one.__code__ = make(d, a, saw).__code__
        one.__defaults__ = d
        one.__annotations__ = dict(a)
        if fail_first:
            # a build of the object that raises, right before its signature data changes again
            fail[0] = True
            try:
                SynthDef('c20reload', one)
            except GraphError:
                pass
            fail[0] = False
        n += 1
        try:
            got = 'sha1:' + hashlib.sha1(bytes(SynthDef('c20reload', one).as_bytes())).hexdigest()
        except Exception as e:
            got = 'EXC:' + type(e).__name__
        try:
            exp = 'sha1:' + hashlib.sha1(bytes(SynthDef('c20reload', make(d, a, saw)).as_bytes())).hexdigest()
        except Exception as e:
            exp = 'EXC:' + type(e).__name__
        if got != exp:
            rep.violation(
                obligation='C20.reload',
                what='build #%d of one function object, after its defaults/annotations/code were '
                     'replaced in place by %r / %r%s, differs from the build of an equal, never '
                     'built function' % (k + 1, d, a, ' / other code' if saw else ''),
                input={'step': k, 'defaults': d, 'annotations': a}, observed=got, expected=exp,
                key='C20.reload:stale', replay={'func': 'reload', 'args': None})
    rep.bounded(name='reload', function='SynthDef.__init__ + as_bytes',
                bound='one function object rebuilt %d times, its __defaults__, __annotations__ '
                      'and __code__ replaced in place between builds, two of the changes preceded '
                      'by a build of the object that raises' % len(steps),
                evaluations=2 * n, distinct_nontrivial=n,
                rule='bytes equal those of a fresh function object with the same code, defaults '
                     'and annotations', samples=[list(map(repr, s_[:2])) for s_ in steps[:3]])


def run_history(hist, good, ref, fb):
    """hist: list of step names ('A', 'B' or a failing build).  -> problem
    dict or None."""
    for pos, step in enumerate(hist):
        if step in good:
            o = outcome(good[step])
            if o != ref[step]:
                return {'pos': pos, 'what': 'good build %s gave %s' % (step, o),
                        'observed': o, 'expected': ref[step], 'kind': 'bytes'}
        else:
            e = fb[step]()
            if e is None and step in MUST_RAISE:
                return {'pos': pos, 'what': 'failing build %s did not raise' % step,
                        'observed': None, 'expected': 'exception',
                        'kind': 'no-raise:' + step}
        bad = residue()
        if bad:
            return {'pos': pos, 'what': 'after step %d (%s): %s' % (
                pos, step, bad[0]), 'observed': bad, 'expected': [],
                'kind': 'context-left-set'}
        msg = lock_free(good['A'], ref['A'])
        if msg:
            return {'pos': pos, 'what': 'after step %d (%s): %s' % (pos, step, msg),
                    'observed': msg, 'expected': 'reference bytes in time',
                    'kind': 'lock-held' if 'did not finish' in msg
                    else 'bytes-in-thread'}
    return None


def _sub_histories(rep, specs, ref):
    import itertools
    fb = failing_builds()
    good = {'A': specs[0], 'B': specs[min(7, len(specs) - 1)]}
    gref = {'A': ref[0], 'B': ref[min(7, len(specs) - 1)]}
    steps = ['A', 'B'] + sorted(fb)
    maxlen = 3 if rep.tier == 'quick' else 4
    n = 0
    reported = {}
    stop = False
    for L in range(1, maxlen + 1):
        for hist in itertools.product(steps, repeat=L):
            if L > 1 and all(h in good for h in hist):
                continue
            n += 1
            # always end with the two good builds
            full = list(hist) + ['A', 'B']
            p = run_history(full, good, gref, fb)
            if p:
                key = 'C20.histories:' + p['kind']
                if reported.get(key, 0) < 3:
                    reported[key] = reported.get(key, 0) + 1
                    rep.violation(obligation='C20.histories', what=p['what'],
                                  input={'history': full}, observed=p['observed'],
                                  expected=p['expected'], key=key,
                                  replay={'func': 'history', 'args': full})
                if p['kind'] == 'lock-held':
                    # every further failing build would cost a timeout
                    rep._lock_broken = True
                    rep.note('histories stopped after %d sequences: the build '
                             'lock stays held after a failing build' % n)
                    stop = True
                    break
        if stop:
            break
    rep.bounded(name='histories', function='SynthDef.__init__ + as_bytes',
                bound='every sequence of length <= %d over %s, followed by A, B'
                      % (maxlen, steps),
                evaluations=n, distinct_nontrivial=n,
                rule='after every step: units created outside a build have no '
                     'definition, SynthDef.wrap outside a build raises, a build '
                     'in a fresh thread finishes within %gs with the reference '
                     'bytes' % LOCK_TIMEOUT,
                samples=[['func_raises_late', 'A', 'B'],
                         ['writer_long_name', 'input_check_rate', 'A', 'B']],
                exhaustive=True)


def _sub_threads(rep, specs, ref):
    fb = failing_builds()
    rounds = 6 if rep.tier == 'quick' else 40
    n = 0
    distinct = set()
    reported = 0
    rng = rep.rng
    for r in range(rounds):
        for nth in range(2, 9):
            # each thread gets its own slice of the corpus
            picks = [rng.sample(range(len(specs)), min(6, len(specs)))
                     for _ in range(nth)]
            extra = r % 3            # 0: builds only, 1: + failing builds, 2: + reader
            if extra == 1 and getattr(rep, '_lock_broken', False):
                extra = 0
            results = [None] * nth
            start = threading.Barrier(nth)

            def body(t):
                from sc3.synth.synthdesc import SynthDesc
                from sc3.synth.synthdef import SynthDef
                out = []
                start.wait()
                for j, i in enumerate(picks[t]):
                    if extra == 1 and t % 2 == 1:
                        k = sorted(fb)[(t + j) % len(fb)]
                        fb[k]()
                    if extra == 2 and t % 3 == 0:
                        try:
                            SynthDesc.new_from(SynthDef('r%d' % t,
                                                        _hand(0)[1]))
                        except Exception:
                            pass
                    out.append(outcome(specs[i]))
                results[t] = out
            ths = [threading.Thread(target=body, args=(t,), daemon=True)
                   for t in range(nth)]
            for th in ths:
                th.start()
            for th in ths:
                th.join(LOCK_TIMEOUT * 4)
            if any(th.is_alive() for th in ths):
                rep.violation(obligation='C20.threads',
                              what='%d concurrent builders did not finish' % nth,
                              input={'threads': nth, 'picks': picks},
                              key='C20.threads:deadlock', observed='timeout')
                return
            for t in range(nth):
                for j, i in enumerate(picks[t]):
                    n += 1
                    distinct.add((nth, i))
                    if results[t][j] != ref[i] and reported < 3:
                        reported += 1
                        rep.violation(
                            obligation='C20.threads',
                            what='with %d threads (mode %d) thread %d built '
                                 'corpus[%d] differently from the sequential '
                                 'build' % (nth, extra, t, i),
                            input={'threads': nth, 'spec': specs[i]},
                            observed=results[t][j], expected=ref[i],
                            key='C20.threads:differs',
                            replay={'func': 'repeat', 'args': specs[i]})
    bad = residue()
    if bad:
        rep.violation(obligation='C20.threads', what='after the threaded runs: '
                      + bad[0], key='C20.threads:context-left-set', observed=bad)
    rep.bounded(name='threads', function='SynthDef.__init__ + as_bytes',
                bound='%d rounds x 2..8 threads x 6 builds per thread; every 3rd '
                      'round odd threads also run failing builds, every 3rd '
                      'round some threads run SynthDesc.new_from' % rounds,
                evaluations=n, distinct_nontrivial=len(distinct),
                rule='threads start on a barrier; each result is compared with '
                     'the sequential reference outcome of the same function',
                samples=[{'threads': 8, 'builds_per_thread': 6}], exhaustive=False)


def _sub_subprocess(rep, specs_seed, nspecs, ref, which):
    quick = rep.tier == 'quick'
    runs = []
    if which == 'hashseed':
        seeds = [0, 1, 4242] if quick else [0, 1, 2, 3, 17, 4242, 99991,
                                             2 ** 32 - 1, 'random', 123456789]
        for i, hs in enumerate(seeds):
            runs.append(({'mode': 'nrt', 'corpus_seed': specs_seed, 'n': nspecs,
                          'order': ('fwd', 'rev', 'shuffle')[i % 3],
                          'order_seed': i, 'warm': 0 if getattr(rep, '_lock_broken', False) else i % 2}, hs))
    else:
        runs.append(({'mode': 'rt', 'corpus_seed': specs_seed, 'n': nspecs,
                      'order': 'fwd', 'warm': 0}, 0))
        if not quick:
            runs.append(({'mode': 'rt', 'corpus_seed': specs_seed, 'n': nspecs,
                          'order': 'shuffle', 'order_seed': 5,
                          'warm': 0 if getattr(rep, '_lock_broken', False) else 1}, 7))
    n = 0
    done = 0
    from concurrent.futures import ThreadPoolExecutor
    with ThreadPoolExecutor(max_workers=8) as ex:
        results = list(ex.map(lambda r: run_worker(r[0], r[1]), runs))
    for (spec, hs), (out, err) in zip(runs, results):
        if out is None:
            if spec['mode'] == 'rt':
                rep.note('real-time subprocess could not run (%s); RT/NRT '
                         'comparison skipped' % err)
                continue
            rep.error('C20 worker failed: ' + err)
            continue
        done += 1
        for i, o in enumerate(out):
            n += 1
            if o != ref[i]:
                rep.violation(
                    obligation='C20.' + which,
                    what='corpus[%d] built in a subprocess (%s, PYTHONHASHSEED=%s) '
                         'differs from the in-process build' % (i, spec, hs),
                    input={'worker': spec, 'hashseed': hs, 'index': i},
                    observed=o, expected=ref[i], key='C20.%s:differs' % which,
                    replay={'func': 'worker', 'args': [spec, hs, i, ref[i]]})
    rep.bounded(name=which, function='SynthDef.__init__ + as_bytes',
                bound='%d subprocess runs (%s), %d functions each' % (
                    len(runs), [(r[0]['mode'], r[1], r[0]['order'],
                                 'warm' if r[0]['warm'] else 'cold')
                                for r in runs], nspecs),
                evaluations=n, distinct_nontrivial=done * len(set(ref)),
                rule='each subprocess rebuilds the whole corpus (given order; '
                     '"warm" = after stray units, all failing builds, 40 other '
                     'builds and a reader call) and reports sha1/exception type '
                     'per function', samples=[r[0] for r in runs[:2]],
                exhaustive=False)


def main(rep):
    _init_sc3('nrt')
    quick = rep.tier == 'quick'
    nspecs = 150 if quick else 1200
    cseed = rep.rng.randrange(1 << 30)
    specs = corpus(cseed, nspecs)
    ref = [outcome(s) for s in specs]
    nexc = sum(1 for r in ref if r.startswith('EXC'))
    if nexc:
        rep.note('%d of %d corpus functions do not compile on this tree (their '
                 'outcome, the exception type, is compared like bytes)' % (
                     nexc, nspecs))
    if wants(rep, 'repeat'):
        _sub_repeat(rep, specs, ref)
    if wants(rep, 'reload'):
        _sub_reload(rep)
    if wants(rep, 'histories'):
        _sub_histories(rep, specs, ref)
    if wants(rep, 'threads'):
        _sub_threads(rep, specs, ref)
    if wants(rep, 'hashseed'):
        _sub_subprocess(rep, cseed, nspecs, ref, 'hashseed')
    if wants(rep, 'modes'):
        _sub_subprocess(rep, cseed, nspecs, ref, 'modes')
    rep.note('Only Exception subclasses are used as build errors; what a '
             'BaseException (KeyboardInterrupt) inside a graph function leaves '
             'behind is not demanded.')


def replay(case, rep):
    _init_sc3('nrt')
    r = case['replay']
    if r['func'] == 'repeat':
        outs = [outcome(r['args']) for _ in range(3)]
        if len(set(outs)) != 1:
            rep.violation(obligation='C20.repeat', what='outcomes differ',
                          input=r['args'], observed=outs, key='C20.repeat:differs')
    elif r['func'] == 'reload':
        _sub_reload(rep)
    elif r['func'] == 'history':
        fb = failing_builds()
        specs = corpus(0, 8)
        good = {'A': specs[0], 'B': specs[7]}
        gref = {k: outcome(v) for k, v in good.items()}
        p = run_history(r['args'], good, gref, fb)
        if p:
            rep.violation(obligation='C20.histories', what=p['what'],
                          input=r['args'], observed=p['observed'],
                          key='C20.histories:' + p['kind'])
    elif r['func'] == 'worker':
        spec, hs, i, _ = r['args']
        specs = corpus(spec['corpus_seed'], spec['n'])
        here = outcome(specs[i])
        out, err = run_worker(spec, hs)
        if out is not None and out[i] != here:
            rep.violation(obligation='C20.hashseed', what='outcome differs',
                          input=r['args'], observed=out[i], expected=here,
                          key='C20.hashseed:differs')
    return not rep.violations


if __name__ == '__main__':
    driver_main('C20', main, replay)
