"""Engine self-test (python3-vt -m vf.selftest): applies (a) semantics-preserving
edits and (b) property-breaking edits of functions under contract to a scratch
copy of /repo/sc3 (outside /repo and /verif, removed afterwards) and runs the
pyvc part of the relevant check on it.

  (a) must stay free of violations and checker errors (brittleness guard);
  (b) must turn some obligation of the named function red (sat / violation).

Prints one line per edit and a summary; exit 0 iff all behave as expected.
"""
import json
import os
import shutil
import subprocess
import sys
import tempfile

VERIF = os.path.dirname(os.path.dirname(os.path.abspath(__file__)))

HARMLESS = [
    ('C15', 'sc3/base/builtins.py', "    zero = 0\n    if a >= b:", "    nought = 0\n    zero = nought\n    if a >= b:", 'extra local in mod'),
    ('C15', 'sc3/base/builtins.py', "    c = int(math.fmod(a, b))\n    if c < 0: c += b\n    return c",
     "    rem = int(math.fmod(a, b))\n    if rem < 0:\n        rem += b\n    return rem", 'renamed local in mod'),
    ('C12', 'sc3/base/clock.py', "        self._base_seconds = self.beats2secs(beats)\n        self._base_beats = beats\n        self._tempo = value",
     "        new_base = self.beats2secs(beats)\n        self._base_beats = beats\n        self._base_seconds = new_base\n        self._tempo = value",
     'reordered independent stores in tempo setter'),
    ('C12', 'sc3/base/clock.py', "        return (beats - self._base_beats) * self._beat_dur + self._base_seconds",
     "        offset = beats - self._base_beats\n        return offset * self._beat_dur + self._base_seconds", 'extracted local in beats2secs'),
    ('C06', 'sc3/base/netaddr.py', "        return n + 4 - (n & 3)", "        rem = n & 3\n        return n + (4 - rem)", 'rewritten _strpad4'),
    ('C16', 'sc3/synth/_engine.py', "        x = self._temp\n        self._temp = bi.wrap(x + 1, self._init_temp, 0x03FFFFFF)\n        return x | self._mask",
     "        current = self._temp\n        nxt = bi.wrap(current + 1, self._init_temp, 0x03FFFFFF)\n        self._temp = nxt\n        return current | self._mask",
     'renamed locals in NodeIDAllocator.alloc'),
    ('C09', 'sc3/base/_taskq.py', "        count = next(self._counter)\n        entry = [prio, count, task]",
     "        number = next(self._counter)\n        entry = [prio, number, task]", 'renamed local in TaskQueue.add'),
    ('C11', 'sc3/base/stream.py', "            finally:\n                _libsc3.main.current_tt = self.parent\n                self.parent = None",
     "            finally:\n                caller = self.parent\n                self.parent = None\n                _libsc3.main.current_tt = caller",
     'reordered restore in Routine.next'),
    ('C07', 'sc3/base/_oscinterface.py', "        if time is None or time < 0.0:\n            return oli.IMMEDIATELY\n        else:\n            time += send_time\n            return clk.SystemClock.elapsed_time_to_osc(time)",
     "        if time is None or time < 0.0:\n            return oli.IMMEDIATELY\n        stamp = time + send_time\n        return clk.SystemClock.elapsed_time_to_osc(stamp)",
     'flattened else in _get_timetag'),
    ('C08', 'sc3/base/clock.py', "                    item = cls._task_queue.pop()\n                    sched_time = item[0]\n                    task = item[1]",
     "                    sched_time, task = cls._task_queue.pop()", 'tuple unpacking in SystemClock._run'),
    ('C01', 'sc3/synth/ugen.py', "        elif selector == '+':\n            if a_cmp == 0.0: return b\n            if b_cmp == 0.0: return a",
     "        elif selector == '+':\n            if b_cmp == 0.0: return a\n            if a_cmp == 0.0: return b", 'reordered independent short-cuts'),
    ('C20', 'sc3/synth/synthdef.py', "                self._func = func\n                _libsc3.main._current_synthdef = None",
     "                _libsc3.main._current_synthdef = None\n                self._func = func", 'reordered independent statements in _build'),
    ('C04', 'sc3/synth/ugens/inout.py', "            self._special_index = len(self._synthdef._controls)\n            self._synthdef._controls.extend(self.values)\n            self._synthdef._control_index += len(self.values)\n        return self._init_outputs(len(self.values), self.rate)\n\n    # is_audio",
     "            synthdef = self._synthdef\n            first = len(synthdef._controls)\n            self._special_index = first\n            synthdef._controls.extend(self.values)\n            synthdef._control_index += len(self.values)\n        return self._init_outputs(len(self.values), self.rate)\n\n    # is_audio",
     'locals in AudioControl._init_ugen'),
    ('C14', 'sc3/seq/event.py', "        return self('freq') * self('harmonic') + self('detune')",
     "        partial = self('freq') * self('harmonic')\n        return partial + self('detune')", 'extracted local in _detuned_freq'),
    ('C14', 'sc3/seq/event.py', "        if 'db' in self:\n            return bi.dbamp(self['db'])\n        elif 'velocity' in self:\n            return self._amp_from_velocity()\n        else:\n            return self.default_values['amp']",
     "        if 'db' in self:\n            return bi.dbamp(self['db'])\n        if 'velocity' in self:\n            return self._amp_from_velocity()\n        return self.default_values['amp']", 'flattened elif chain in amp'),
    ('C10', 'sc3/base/stream.py', "        self._rand_seed = x\n        self._rgen = random.Random(x)", "        self._rgen = random.Random(x)\n        self._rand_seed = x", 'reordered stores in rand_seed setter'),
    ('C02', 'sc3/synth/ugen.py', "            frw.write_pascal_str(file, self.name)\n            frw.write_i8(file, self._rate_number())\n            frw.write_i32(file, self._num_inputs())\n            frw.write_i32(file, self._num_outputs())",
     "            rate_number = self._rate_number()\n            n_in = self._num_inputs()\n            n_out = self._num_outputs()\n            frw.write_pascal_str(file, self.name)\n            frw.write_i8(file, rate_number)\n            frw.write_i32(file, n_in)\n            frw.write_i32(file, n_out)",
     'header values computed before they are written'),
    ('C01', 'sc3/synth/ugen.py', "            self._synthdef._remove_ugen(b)\n            replacement = Sum3.new(b.inputs[0], b.inputs[1], a)",
     "            replacement = Sum3.new(b.inputs[0], b.inputs[1], a)\n            self._synthdef._remove_ugen(b)", 'replacement made before the absorbed unit is removed'),
    ('C03', 'sc3/synth/ugen.py', "                new_args[j] = (\n                    item[i % len(item)] if isinstance(item, list) else item)",
     "                if isinstance(item, list):\n                    new_args[j] = item[i % len(item)]\n                else:\n                    new_args[j] = item", 'conditional expression unfolded in _multi_new'),
    ('C11', 'sc3/base/stream.py', "            if self.test:\n                tmp_wtt = self._waiting_threads\n                self._waiting_threads = []\n                for tt in tmp_wtt:\n                    tt._clock.sched(0, tt)",
     "            if self.test:\n                waiting, self._waiting_threads = self._waiting_threads, []\n                for tt in waiting:\n                    tt._clock.sched(0, tt)", 'tuple swap in Condition.signal'),
    ('C17', 'sc3/synth/node.py', "        self.group = target.group\n        self.server.addr.send_msg(\n            '/n_before', self.node_id, target.node_id)  # 18",
     "        target_id = target.node_id\n        self.group = target.group\n        self.server.addr.send_msg('/n_before', self.node_id, target_id)  # 18", 'local for the target id in move_before'),
    ('C06', 'sc3/base/_oscinterface.py', "                elif isinstance(arg[0], str):\n                    msg_builder.add_arg(\n                        self._build_msg(send_time, arg).dgram)",
     "                elif isinstance(arg[0], str):\n                    nested = self._build_msg(send_time, arg)\n                    msg_builder.add_arg(nested.dgram)", 'local for the nested message in _build_msg'),
    ('C16', 'sc3/synth/_engine.py', "            while i <= self.top and self._array[i - self.addr_offset] is None:\n                i += 1",
     "            offset = self.addr_offset\n            while i <= self.top and self._array[i - offset] is None:\n                i += 1", 'local for the offset in _find_next'),
    ('C19', 'sc3/synth/envelope.py', "            contents.append(type(self)._shape_number(curves[i % len(curves)]))\n            contents.append(type(self)._curve_value(curves[i % len(curves)]))\n\n        self.__envgen_format",
     "            segcurve = curves[i % len(curves)]\n            shape = type(self)._shape_number(segcurve)\n            curvature = type(self)._curve_value(segcurve)\n            contents.append(shape)\n            contents.append(curvature)\n\n        self.__envgen_format", 'locals for shape and curvature in _envgen_format'),
    ('C02', 'sc3/synth/ugen.py', "        for ugen in reversed(descendants):\n            ugen._remove_antecedent(self)\n        out_stack.append(self)", "        out_stack.append(self)\n        for ugen in reversed(descendants):\n            ugen._remove_antecedent(self)",
     'unit appended before its descendants are released (they are arranged in later passes either way)'),
    ('C02', 'sc3/synth/synthdef.py', "        for ugen in reversed(self._children):\n            # // All ugens with no antecedents are made available.\n            ugen._make_available()",
     "        for ugen in self._children:\n            # // All ugens with no antecedents are made available.\n            ugen._make_available()", 'availability offered first to last (another valid order)'),
    ('C14', 'sc3/seq/patterns/eventpatterns.py', "                queue.add(now + float(outevent('delta')), stream)", "                child_delta = float(outevent('delta'))\n                queue.add(now + child_delta, stream)", 'local for the child delta in Ppar'),
    ('C13', 'sc3/seq/patterns/listpatterns.py', "            inval = yield from stm.embed(lst[(i + offset) % size], inval)",
     "            item = lst[(i + offset) % size]\n            inval = yield from stm.embed(item, inval)", 'local for the item in Pser'),
    ('C06', 'sc3/base/netaddr.py', "            acc_size += s + 4  # Element size bytes.\n            clump.append(e)", "            clump.append(e)\n            acc_size += s + 4  # Element size bytes.", 'clump append before the size update (independent statements)'),
    ('C17', 'sc3/synth/buffer.py', "        msg = ['/b_free', self._bufnum, fn.value(completion_msg, self)]", "        completion = fn.value(completion_msg, self)\n        msg = ['/b_free', self._bufnum, completion]", 'local for the completion message in Buffer.free'),
    ('C17', 'sc3/synth/server.py', "            for i in range(block.address, block.address + block.size):\n                bundle.append(['/b_free', i])", "            first = block.address\n            for i in range(first, first + block.size):\n                bundle.append(['/b_free', i])", 'local for the first number of a block in _free_all_buffers'),
    ('C04', 'sc3/synth/synthdef.py', "        names = [x.name for x in params]\n        names = names[skip_args:]\n        values = self._get_valid_arg_values(params)\n        values = values[skip_args:]", "        used = params[skip_args:]\n        names = [x.name for x in used]\n        values = self._get_valid_arg_values(used)", 'parameters sliced once before names and values are taken'),
    ('C04', 'sc3/synth/synthdef.py', "            overridden = lag in rate_names", "            overridden = lag in ('ar', 'kr', 'ir', 'tr')", 'rate names spelled out in the override test'),
    ('C18', 'sc3/base/responders.py', "        func = self.wrap_func(func_proxy)\n        old_func = self.wrapped_funcs[func_proxy]\n        self.wrapped_funcs[func_proxy] = func", "        old_func = self.wrapped_funcs[func_proxy]\n        func = self.wrap_func(func_proxy)\n        self.wrapped_funcs[func_proxy] = func", 'old wrapped function read before the new one is made'),
    ('C13', 'sc3/seq/patterns/filterpatterns.py', "            for _ in bi.counter(self.repeats):\n                inevent[key] = True", "            repeats = self.repeats\n            for _ in bi.counter(repeats):\n                inevent[key] = True", 'local for the repeat count in Pn with a key'),
    ('C04', 'sc3/synth/synthdef.py', "        for p in params[skip_args:]:", "        used_params = params[skip_args:]\n        for p in used_params:", 'local for the parameters after the prepended ones'),
    ('C03', 'sc3/synth/ugen.py', "                l.append(getattr(gpp.ugen_param(item), selector)(*rest))", "                method = getattr(gpp.ugen_param(item), selector)\n                l.append(method(*rest))", 'local for the bound method in _multichannel_perform'),
    ('C04', 'sc3/synth/synthdef.py', "                    arguments[cn.arg_num] = ctrl_ugens[i]\n                    self._set_control_names(ctrl_ugens[i], cn)", "                    out = ctrl_ugens[i]\n                    arguments[cn.arg_num] = out\n                    self._set_control_names(out, cn)", 'local for the control output in the group helper'),
    ('C17', 'sc3/synth/bus.py', "        self._server.addr.send_msg('/c_fill', self._index, channels, value)", "        index = self._index\n        self._server.addr.send_msg('/c_fill', index, channels, value)", 'local for the bus index in fill'),
    ('C13', 'sc3/seq/patterns/eventpatterns.py', "                event = inevent.copy()\n                event.update(self._stream_dict_next(stream_dict))", "                event = inevent.copy()\n                values = self._stream_dict_next(stream_dict)\n                event.update(values)", 'local for the values of a Pbind pass'),
    ('C04', 'sc3/synth/synthdef.py', "                        index = cn.index\n                        for i, val in enumerate(values):\n                            varcontrols[index + i] = val", "                        first = cn.index\n                        for i, val in enumerate(values):\n                            varcontrols[first + i] = val", 'local renamed in the variant writer'),
    ('C08', 'sc3/base/clock.py', "        with cls._tick_cond:\n            cls._run_sched = False\n            cls._tick_cond.notify()\n        cls._thread.join()", "        with cls._tick_cond:\n            cls._tick_cond.notify_all()\n            cls._run_sched = False\n        cls._thread.join()", 'AppClock._stop: flag and notification exchanged inside the critical section'),
    ('C11', 'sc3/base/stream.py', "                clock = clock or self._clock\n                clock.play(self, quant)", "                where = clock or self._clock\n                where.play(self, quant)", 'local renamed in Routine.resume'),
    ('C16', 'sc3/synth/_engine.py', "            if block in self._freed[block.size]:\n                self._freed[block.size].remove(block)\n            if not self._freed[block.size]:\n                del self._freed[block.size]", "            blocks = self._freed[block.size]\n            if block in blocks:\n                blocks.remove(block)\n            if not blocks:\n                del self._freed[block.size]", 'local for the set in _remove_from_freed'),
    ('C18', 'sc3/base/systemactions.py', "        for action in cls._actions.copy():\n            cls._do_action(action)\n\n    @classmethod\n    def _do_action", "        for action in list(cls._actions):\n            cls._do_action(action)\n\n    @classmethod\n    def _do_action", 'SystemAction.run: list() instead of copy() for the snapshot'),
    ('C18', 'sc3/base/systemactions.py', "        cls._servers[server].update({action: (args, kwargs)})", "        cls._servers[server][action] = (args, kwargs)", 'ServerAction.add: item assignment instead of update'),
    ('C18', 'sc3/base/model.py', "        except KeyError as e:\n            err = True", "        except KeyError as e:\n            err = False", 'unregister stays silent on a missing registration (not asked for by C18)'),
    ('C19', 'sc3/synth/envelope.py', "        return cls([0, level, 0], [dur, dur], 'sine')", "        return cls([0, level, 0], [dur, dur], 'sin')", "Env.sine: the other name of the same shape"),
    ('C13', 'sc3/seq/patterns/listpatterns.py', "                            lst[bi.mod(pos + j, size)], inval)", "                            lst[(pos + j) % size], inval)", "Pslide: Python's % instead of bi.mod"),
    ('C13', 'sc3/seq/patterns/listpatterns.py', "                if wrap:\n                    for j in range(lval):\n                        inval = yield from stm.embed(\n                            lst[bi.mod(pos + j, size)], inval)\n                else:\n                    for j in range(lval):\n                        if 0 <= pos + j < size:\n                            inval = yield from stm.embed(\n                                lst[pos + j], inval)\n                        else:\n                            return inval\n", "                if not wrap:\n                    for j in range(lval):\n                        if 0 <= pos + j < size:\n                            inval = yield from stm.embed(\n                                lst[pos + j], inval)\n                        else:\n                            return inval\n                else:\n                    for j in range(lval):\n                        inval = yield from stm.embed(\n                            lst[bi.mod(pos + j, size)], inval)\n", 'Pslide: branches (each with its loop) exchanged under a negated test'),
    ('C13', 'sc3/seq/patterns/filterpatterns.py', "        trig = None\n        try:\n            while True:\n                trig = trig_stream.next(inval)\n                if trig:", "        flag = None\n        try:\n            while True:\n                flag = trig_stream.next(inval)\n                if flag:", 'Platch: local for the trigger renamed'),
    ('C02', 'sc3/synth/synthdef.py', "        if self._bytes is None:\n            stream = io.BytesIO()", "        if True:\n            stream = io.BytesIO()", 'as_bytes makes the bytes again every time (same bytes)'),
    ('C01', 'sc3/synth/ugen.py', "        optimized_ugen = self._optimize_to_sum3()\n        # // create a Sum4 if possible\n        if not optimized_ugen:\n            optimized_ugen = self._optimize_to_sum4()", "        optimized_ugen = self._optimize_to_sum4()\n        # // create a Sum4 if possible\n        if not optimized_ugen:\n            optimized_ugen = self._optimize_to_sum3()", 'Sum4 rewrite tried before Sum3 (both preserve the meaning)'),
]

BREAKING = [
    ('C15', 'sc3/base/builtins.py', "    if c < 0: c += b\n    return c", "    return c", 'mod: no sign fix-up'),
    ('C15', 'sc3/base/builtins.py', "        return float(floor(x / quant + .5) * quant)", "        return float(floor(x / quant) * quant)", 'round -> trunc'),
    ('C12', 'sc3/base/clock.py', "        self._beat_dur = 1.0 / self._tempo\n        # en tempo_", "        # en tempo_", 'tempo setter keeps old beat_dur'),
    ('C12', 'sc3/base/clock.py', "        return self.bars2beats(bi.ceil(self.beats2bars(beat)))", "        return self.bars2beats(bi.floor(self.beats2bars(beat)))", 'next_bar floors'),
    ('C06', 'sc3/base/netaddr.py', "        return n + 4 - (n & 3)", "        return n + 3 - (n & 3)", '_strpad4 off by one'),
    ('C06', 'sc3/base/_osclib.py', "    while len(dgram) % _BLOB_DGRAM_PAD != 0:\n        dgram += b'\\x00'", "    while len(dgram) % _BLOB_DGRAM_PAD > 1:\n        dgram += b'\\x00'", 'write_blob pads short'),
    ('C16', 'sc3/synth/_engine.py', "        self._mask = self.user << 26", "        self._mask = self.user << 25", 'node id mask'),
    ('C16', 'sc3/synth/_engine.py', "            size = max(self.start + self.size, block.start + block.size) - start", "            size = self.size + block.size", 'join adds sizes'),
    ('C07', 'sc3/base/clock.py', "        return int(elapsed * cls._SECONDS_TO_OSC) + cls._elapsed_osc_offset", "        return int(elapsed * cls._SECONDS_TO_OSC)", 'timetag without epoch offset'),
    ('C11', 'sc3/base/stream.py', "            except AlwaysYield as e:\n                self._iterator = None", "            except AlwaysYield as e:\n                pass", 'AlwaysYield keeps iterator'),
    ('C08', 'sc3/base/clock.py', "                    except stm.StopStream:\n                        pass\n                    except Exception:\n                        # Always recover.", "                    except stm.StopStream:\n                        raise\n                    except Exception:\n                        # Always recover.", 'StopStream escapes the clock loop'),
    ('C05', 'sc3/base/clock.py', "            seconds = _libsc3.main.current_tt._seconds\n            seconds += delta\n            if seconds == float('inf'):\n                return\n            ClockTask(seconds, cls, item, _libsc3.main._clock_scheduler)",
     "            seconds = _libsc3.main.elapsed_time()\n            seconds += delta\n            if seconds == float('inf'):\n                return\n            ClockTask(seconds, cls, item, _libsc3.main._clock_scheduler)", 'NRT sched from physical time'),
    ('C01', 'sc3/synth/ugen.py', "            if a_cmp == -1.0: return -b  # neg\n            if b_cmp == 1.0: return a", "            if a_cmp == -1.0: return b  # neg\n            if b_cmp == 1.0: return a", '-1 * b returns b'),
    ('C02', 'sc3/synth/_fmtrw.py', "    stream.write(struct.pack('>h', value))", "    stream.write(struct.pack('>i', value))", 'write_i16 writes 4 bytes'),
    ('C18', 'sc3/base/_osclib.py', "                if content_size < 0:", "                if content_size < -4:", 'negative element size accepted'),
    ('C19', 'sc3/synth/envelope.py', "                elif shape == shape_names['hold']:\n                    return start_level", "                elif shape == shape_names['hold']:\n                    return target_level", 'hold returns the target'),
    ('C20', 'sc3/synth/synthdef.py', "            except Exception:\n                _libsc3.main._current_synthdef = None\n                raise", "            except Exception:\n                raise", 'context not cleared on failure'),
    ('C09', 'sc3/base/_taskq.py', "            self._removed_counter += 1", "            self._removed_counter += 0", 'removed counter not maintained'),
    ('C03', 'sc3/base/utils.py', "    return lst * (n // l) + lst[:n % l]", "    return lst * (n // l) + lst[:n % l - 1]", 'wrap_extend drops one'),
    ('C13', 'sc3/seq/patterns/valuepatterns.py', "                cur *= growval", "                cur += growval", 'Pgeom adds'),
    ('C17', 'sc3/base/netaddr.py', "        if exc_type is None and self._send:", "        if self._send:", 'bind sends after an exception'),
    ('C10', 'sc3/base/_oscinterface.py', "        if time is None or time < 0.0:\n            time = 0.0\n        if _libsc3.main.current_tt is not _libsc3.main.main_tt:\n            time += send_time\n        return time",
     "        if time is None:\n            time = 0.0\n        if _libsc3.main.current_tt is not _libsc3.main.main_tt:\n            time += send_time\n        return time", 'score time without negative clamp'),
    ('C04', 'sc3/synth/ugens/inout.py', "        size2 = size >> 1  # size // 2", "        size2 = (size + 1) >> 1", 'LagControl splits values/lags off by one'),
    ('C04', 'sc3/synth/synthdef.py', "            name, len(self._controls), 'trigger',", "            name, self._control_index + 1, 'trigger',", 'trigger name index off by one'),
    ('C14', 'sc3/seq/event.py', "        return self('dur') * self('legato') * self('stretch')", "        return self('dur') * self('legato')", 'sustain ignores stretch'),
    ('C14', 'sc3/seq/event.py', "        if 'note' in self:\n            return self._midi_from_note()\n        elif 'degree' in self:\n            return self._midinote_from_degree()",
     "        if 'degree' in self:\n            return self._midinote_from_degree()\n        elif 'note' in self:\n            return self._midi_from_note()", 'degree before note in midinote'),
    ('C10', 'sc3/base/stream.py', "        self._rand_seed = x\n        self._rgen = random.Random(x)", "        self._rand_seed = x\n        self._rgen = random.Random(hash(x))", 'generator seeded with hash(seed)'),
    ('C08', 'sc3/base/clock.py', "                    sched_secs = self.beats2secs(qpeek[0])\n                    self._sched_cond.wait(\n                        sched_secs - _libsc3.main.elapsed_time())",
     "                    if elapsed_beats == 0:\n                        sched_secs = self.beats2secs(qpeek[0])\n                    self._sched_cond.wait(\n                        sched_secs - _libsc3.main.elapsed_time())", 'TempoClock deadline computed once'),
    ('C02', 'sc3/synth/ugen.py', "            frw.write_i32(file, self._num_inputs())\n            frw.write_i32(file, self._num_outputs())", "            frw.write_i32(file, self._num_outputs())\n            frw.write_i32(file, self._num_inputs())", 'input and output counts swapped in the unit header'),
    ('C02', 'sc3/synth/synthdef.py', "            self._constants[value] = len(self._constants)", "            self._constants[value] = len(self._constants) + 1", 'constant slot off by one'),
    ('C02', 'sc3/synth/ugen.py', "        self._antecedents.remove(ugen)\n        self._make_available()", "        self._make_available()\n        self._antecedents.remove(ugen)", 'availability considered before the antecedent is removed'),
    ('C02', 'sc3/synth/synthdef.py', "        for ugen in self._children:\n            ugen._antecedents = set()\n            ugen._descendants = set()\n        for ugen in self._children:\n            # // This populates the _descendants and _antecedents.\n            ugen._init_topo_sort()  # pong",
     "        for ugen in self._children:\n            ugen._antecedents = set()\n            ugen._descendants = set()\n            ugen._init_topo_sort()  # pong", 'sets reset and edges entered in one loop (later resets wipe earlier edges)'),
    ('C01', 'sc3/synth/ugen.py', "            replacement = BinaryOpUGen.new('-', a, b.inputs[0])", "            replacement = BinaryOpUGen.new('+', a, b.inputs[0])", 'a + neg(c) rewritten to a + c'),
    ('C01', 'sc3/synth/ugen.py', "                    if self._synthdef._children[input._synth_index] is input:\n                        input._optimize_graph()", "                    input._optimize_graph()", 'DCE re-optimises a replaced input'),
    ('C03', 'sc3/synth/ugen.py', "                    item[i % len(item)] if isinstance(item, list) else item)", "                    item[min(i, len(item) - 1)] if isinstance(item, list) else item)", 'expansion clips instead of wrapping'),
    ('C03', 'sc3/synth/ugen.py', "            elif isinstance(item, list):\n                lst[i] = cls._replace_zeroes_with_silence(item)", "            elif isinstance(item, list):\n                cls._replace_zeroes_with_silence(item)", 'nested zero replacement result dropped'),
    ('C11', 'sc3/base/stream.py', "        self._value = inval\n        self.condition.signal()", "        self.condition.signal()\n        self._value = inval", 'FlowVar signals before binding'),
    ('C17', 'sc3/synth/node.py', "            '/n_before', self.node_id, target.node_id)  # 18", "            '/n_before', target.node_id, self.node_id)  # 18", 'n_before ids swapped'),
    ('C06', 'sc3/base/_oscinterface.py', "                    msg_builder.add_arg(\n                        self._build_bundle(send_time, arg).dgram)", "                    msg_builder.add_arg(\n                        self._build_bundle(0.0, arg).dgram)", 'nested bundle encoded at time zero'),
    ('C07', 'sc3/base/_oscinterface.py', "        self._scoreq.add(bndl[0], type(self)._Entry(bndl, msg))", "        self._scoreq.add(send_time, type(self)._Entry(bndl, msg))", 'score entry queued at the send time'),
    ('C16', 'sc3/synth/_engine.py', "        if i - self.addr_offset < self.size:\n            return self._array[i - self.addr_offset]", "        if i < self.size:\n            return self._array[i - self.addr_offset]", '_find_next bound without the offset (the original defect)'),
    ('C19', 'sc3/synth/envelope.py', "            contents.append(levels[i + 1])\n            contents.append(times[i])\n            contents.append(type(self)._shape_number(curves[i % len(curves)]))", "            contents.append(levels[i])\n            contents.append(times[i])\n            contents.append(type(self)._shape_number(curves[i % len(curves)]))", 'segment target level off by one'),
    ('C13', 'sc3/seq/patterns/filterpatterns.py', "                    inval = yield local_sum - sum\n                    return inval", "                    inval = yield value\n                    return inval", 'Pconst yields the last value unclipped'),
    ('C18', 'sc3/base/_osclib.py', "    total_size = size + (-size % _BLOB_DGRAM_PAD)", "    total_size = size + (size % _BLOB_DGRAM_PAD)", 'blob padding computed with the wrong sign'),
    ('C14', 'sc3/seq/patterns/eventpatterns.py', "                    outevent = evt.silent(nexttime - now, inevent)\n                    inevent = yield outevent\n                    now = nexttime", "                    outevent = evt.silent(nexttime - now, inevent)\n                    inevent = yield outevent", 'Ppar clock not advanced after the rest for an ended child'),
    ('C14', 'sc3/seq/patterns/eventpatterns.py', "                nexttime = queue.peek()[0]\n                outevent['delta'] = nexttime - now", "                nexttime = queue.peek()[0]\n                outevent['delta'] = nexttime", 'Ppar delta is an absolute time'),
    ('C13', 'sc3/seq/patterns/filterpatterns.py', "                lst = []\n                n = n_stream.next(inval)", "                n = n_stream.next(inval)\n                lst = []", 'Pclump resets its buffer after reading the size'),
    ('C15', 'sc3/seq/pattern.py', "        self.args = args\n        self._is_event_pattern = (\n            isinstance(a, Pattern) and a.is_event_pattern)", "        self.args = tuple(stm.stream(x) for x in args)\n        self._is_event_pattern = (\n            isinstance(a, Pattern) and a.is_event_pattern)", 'Pnarop casts its operands to streams once'),
    ('C06', 'sc3/base/netaddr.py', "                res.append(clump)\n                clump = []\n                acc_size = 16  # Bundle prefix + Timetag bytes.", "                res.append(clump)\n                clump = []", 'clump size not reset when a new clump is opened'),
    ('C17', 'sc3/synth/buffer.py', "        msg = ['/b_free', self._bufnum, fn.value(completion_msg, self)]\n        self._bufnum = self._frames = self._channels = None", "        self._bufnum = self._frames = self._channels = None\n        msg = ['/b_free', self._bufnum, fn.value(completion_msg, self)]", 'Buffer.free builds its message after the wipe'),
    ('C17', 'sc3/synth/server.py', "            for i in range(block.address, block.address + block.size):", "            for i in range(block.address, block.address + block.size - 1):", 'last number of every block never freed on the server'),
    ('C04', 'sc3/synth/synthdef.py', "        annotations = annotations[skip_args:]\n", "", 'annotations not shifted past the prepended arguments'),
    ('C04', 'sc3/synth/synthdef.py', "            if lag == 'ir' or annot == 'ir' and not overridden:", "            if lag == 'ir' or annot == 'ir':", 'ir annotation wins over an overriding rates entry'),
    ('C04', 'sc3/synth/synthdef.py', "        rates = [x if x is not None else 0.0 for x in rates]", "        rates = [x if x is not None else 0.5 for x in rates]", 'None in rates becomes a lag of 0.5'),
    ('C18', 'sc3/base/responders.py', "            i = self.active[key].index(old_func)\n            self.active[key][i] = func", "            self.active[key].remove(old_func)\n            self.active[key].append(func)", 'updated responder moves to the end of the firing order'),
    ('C18', 'sc3/base/responders.py', "            self.free()\n            fn.value(wrapped_func, *args)", "            fn.value(wrapped_func, *args)\n            self.free()", 'one-shot responder freed after its function ran'),
    ('C18', 'sc3/base/responders.py', "                for func in funcs[:]:\n                    fn.value(func, msg, time, addr, recv_port)\n\n    def type_key(self):\n        return 'OSC matched'", "                for func in funcs[:]:\n                    fn.value(func, msg, time, addr, recv_port)\n                break\n\n    def type_key(self):\n        return 'OSC matched'", 'pattern dispatcher stops at the first matching address'),
    ('C18', 'sc3/base/responders.py', "            for func in self.active[msg[0]][:]:\n                fn.value(func, msg, time, addr, recv_port)", "            for func in self.active[msg[0]][:]:\n                fn.value(func, msg, time, addr, recv_port)\n                break", 'exact dispatcher fires only the first registered function'),
    ('C19', 'sc3/synth/envelope.py', "                start_level = target_level\n                begin_time = end_time\n", "                start_level = target_level\n                begin_time = end_time\n                break\n", 'envelope lookup gives up after the first segment'),
    ('C13', 'sc3/seq/patterns/filterpatterns.py', "            inevent[key] = False\n        return inevent", "        return inevent", 'Pn never clears its key'),
    ('C17', 'sc3/synth/server.py', "            self._buffer_allocator.free(block.address)\n", "            self._buffer_allocator.free(block.address)\n            break\n", 'only the first block of buffers is freed'),
    ('C04', 'sc3/synth/synthdef.py', "        for i, name in enumerate(names):", "        for i, name in enumerate(names[:-1]):", 'last parameter gets no control'),
    ('C02', 'sc3/synth/synthdef.py', "        for i, ugen in enumerate(self._children):\n            ugen._synth_index = i", "        for i, ugen in enumerate(self._children[:-1]):\n            ugen._synth_index = i", 'last unit keeps a stale index'),
    ('C13', 'sc3/seq/patterns/valuepatterns.py', "            for _ in bi.counter(length):\n                stepval = step_stream.next(inval)", "            for _ in list(bi.counter(length))[1:]:\n                stepval = step_stream.next(inval)", 'Pseries one value short'),
    ('C06', 'sc3/base/netaddr.py', "        for e in elements:\n            if isinstance(e[0], str):\n                elist.append", "        for e in elements[1:]:\n            if isinstance(e[0], str):\n                elist.append", 'first element dropped when a bundle is clumped'),
    ('C19', 'sc3/synth/envelope.py', "        for i in range(size):\n            contents.append(levels[i + 1])", "        for i in range(size - 1):\n            contents.append(levels[i + 1])", 'last segment missing from the encoded envelope'),
    ('C03', 'sc3/synth/ugen.py', "                l.append(type(self)(item)._multichannel_perform(selector, *rest))", "                l.append(type(self)(item)._multichannel_perform(selector, *args))", 'nested channels get the unexpanded arguments'),
    ('C04', 'sc3/synth/synthdef.py', "        build_ita_controls(tr_cns, iou.TrigControl, 'kr')\n        build_ita_controls(ar_cns, iou.AudioControl, 'ar')", "        build_ita_controls(ar_cns, iou.AudioControl, 'ar')\n        build_ita_controls(tr_cns, iou.TrigControl, 'kr')", 'audio controls laid out before trigger controls'),
    ('C04', 'sc3/synth/synthdef.py', "                index = self._control_index\n                ctrl_ugens = getattr(ctrl_class, method)(utl.flat(values))", "                ctrl_ugens = getattr(ctrl_class, method)(utl.flat(values))\n                index = self._control_index", 'slot counter read after the control unit advanced it'),
    ('C04', 'sc3/synth/synthdef.py', "            if any(x != 0 for x in lags):", "            if not any(x != 0 for x in lags):", 'lagged controls created only when no lag is given'),
    ('C04', 'sc3/synth/synthdef.py', "                    index += len(utl.as_list(cn.default_value))\n                    arguments[cn.arg_num] = ctrl_ugens[i]\n                    self._set_control_names(ctrl_ugens[i], cn)\n\n        build_ita", "                    index += 1\n                    arguments[cn.arg_num] = ctrl_ugens[i]\n                    self._set_control_names(ctrl_ugens[i], cn)\n\n        build_ita", 'array defaults counted as one slot'),
    ('C17', 'sc3/synth/node.py', "                time = -(time + 1)", "                time = -time", 'forced release time off by one'),
    ('C17', 'sc3/synth/bus.py', "            action(msg[3:])", "            action(msg[2:])", 'bus getn hands the count over as a value'),
    ('C17', 'sc3/synth/buffer.py', "            '/b_fill', self._bufnum, start, int(frames), *values)", "            '/b_fill', self._bufnum, int(frames), start, *values)", 'b_fill start and count swapped'),
    ('C14', 'sc3/seq/event.py', "        server.addr.send_bundle(server.latency + self('delay'), msg)\n        self['is_playing'] = False", "        server.addr.send_bundle(server.latency, msg)\n        self['is_playing'] = False", 'mono release ignores its delay'),
    ('C14', 'sc3/seq/event.py', "            msg = ['/n_free', self['node_id']]", "            msg = ['/n_free', self['node_id'], 0]", 'n_free with a stray argument'),
    ('C13', 'sc3/seq/patterns/eventpatterns.py', "                event = inevent.copy()\n                event.update(self._stream_dict_next(stream_dict))", "                event = inevent\n                event.update(self._stream_dict_next(stream_dict))", 'Pbind writes into the input event'),
    ('C13', 'sc3/seq/patterns/eventpatterns.py', "        streams = [stm.stream(p) for p in reversed(self.patterns)]", "        streams = [stm.stream(p) for p in self.patterns]", 'Pchain applies its patterns first to last'),
    ('C14', 'sc3/seq/patterns/eventpatterns.py', "                    event['node_id'] = node_id\n                    event['mono_params'] = mono_params\n                    inevent = yield event\n        except stm.StopStream:\n            cleanup.run()", "                    event['node_id'] = node_id\n                    event['mono_params'] = mono_params\n                    inevent = yield event\n        except stm.StopStream:\n            pass", 'Pmono never releases its synth'),
    ('C06', 'sc3/base/_osclib.py', "                    dgram += write_int(size)\n                    dgram += content.dgram", "                    dgram += content.dgram\n                    dgram += write_int(size)", 'bundle element size written after the element'),
    ('C06', 'sc3/base/_osclib.py', "                elif arg_type == self.ARG_TYPE_FLOAT:\n                    dgram += write_float(value)", "                elif arg_type == self.ARG_TYPE_FLOAT:\n                    dgram += write_double(value)", 'float arguments encoded as doubles under tag f'),
    ('C18', 'sc3/base/_osclib.py', "                    if len(param_stack) < 2:", "                    if len(param_stack) < 1:", 'closing bracket without an open array accepted'),
    ('C06', 'sc3/base/_osclib.py', "                elif param == \"f\":  # Float.\n                    val, index = get_float(self._dgram, index)", "                elif param == \"f\":  # Float.\n                    val, index = get_double(self._dgram, index)", 'float arguments decoded as doubles'),
    ('C04', 'sc3/synth/synthdef.py', '                for varname, pairs in self._variants.items():\n                    varname = self._name + \'.\' + varname\n                    if len(varname) > 32:\n                        _logger.warning(\n                            f"variant \'{varname}\' name too log, "\n                            "not writing more variants")\n                        return False\n\n                    varcontrols = self._controls[:]\n', '                varcontrols = self._controls[:]\n                for varname, pairs in self._variants.items():\n                    varname = self._name + \'.\' + varname\n                    if len(varname) > 32:\n                        _logger.warning(\n                            f"variant \'{varname}\' name too log, "\n                            "not writing more variants")\n                        return False\n\n', 'variants share one control array (copy hoisted out of the loop)'),
    ('C02', 'sc3/synth/synthdef.py', "                frw.write_pascal_str(file, item.name)\n                frw.write_i32(file, item.index)", "                frw.write_i32(file, item.index)\n                frw.write_pascal_str(file, item.name)", 'name table entries written index first'),
    ('C02', 'sc3/synth/synthdef.py', "        self._topological_sort()\n        self._index_ugens()\n        # UGen.buildSynthDef", "        self._index_ugens()\n        self._topological_sort()\n        # UGen.buildSynthDef", 'units indexed before the final sort'),
    ('C02', 'sc3/synth/synthdef.py', "            arr[index] = value", "            arr[index - 1] = value", 'constants written one slot off'),
    ('C15', 'sc3/base/stream.py', "        b = self.b.next(inval)\n        return self.selector(a, b)", "        b = self.b.next(inval)\n        return self.selector(b, a)", 'binary operator stream swaps its operands'),
    ('C08', 'sc3/base/clock.py', "        with cls._tick_cond:\n            cls._run_sched = False\n            cls._tick_cond.notify()\n        cls._thread.join()", "        with cls._tick_cond:\n            cls._tick_cond.notify()\n        cls._run_sched = False\n        cls._thread.join()", 'AppClock._stop: flag lowered after the critical section'),
    ('C08', 'sc3/base/clock.py', "            cls._sched_cond.notify_all()\n        cls._thread.join()", "            cls._sched_cond.notify_all()\n            cls._thread.join()", 'SystemClock._sched_stop joins the thread while holding its lock'),
    ('C08', 'sc3/base/clock.py', "    def clear(self):\n        while not self.queue.empty():", "    def clear(self):\n        if not self.queue.empty():", 'Scheduler.clear pops one entry only'),
    ('C11', 'sc3/base/stream.py', "            if self.state == self.State.Paused:\n                self.state = self.State.Suspended\n                clock = clock", "            if self.state != self.State.Done:\n                self.state = self.State.Suspended\n                clock = clock", 'resume() revives routines that were not paused'),
    ('C16', 'sc3/synth/_engine.py', "            return self._reserve(block.start, n, block).start\n        else:\n            return None", "            return self._reserve(block.start, n).start\n        else:\n            return None", 'alloc reserves without the block it found'),
    ('C16', 'sc3/synth/_engine.py', "                avail_block, addr - avail_block.start, False)[1]", "                avail_block, addr - avail_block.start, True)[1]", '_reserve marks the gap below the address as in use'),
    ('C16', 'sc3/synth/_engine.py', "            if not self._freed[block.size]:\n                del self._freed[block.size]", "            if self._freed[block.size]:\n                del self._freed[block.size]", 'free list of a size dropped while blocks remain in it'),
    ('C16', 'sc3/synth/_engine.py', "        self._array[pos] = ContiguousBlock(shifted_pos, size - pos)", "        self._array[pos] = ContiguousBlock(shifted_pos, size)", 'initial free block reaches beyond the partition'),
    ('C18', 'sc3/base/systemactions.py', "        for action in cls._actions.copy():\n            cls._do_action(action)\n\n    @classmethod\n    def _do_action", "        for action in cls._actions:\n            cls._do_action(action)\n\n    @classmethod\n    def _do_action", 'SystemAction.run iterates the live registry'),
    ('C18', 'sc3/base/systemactions.py', "        if action in cls._actions:  # May be removed by a previous action.", "        if True:", 'an action removed during the run is still looked up'),
    ('C18', 'sc3/base/systemactions.py', "        if server is srv.Server.default and 'default' in cls._servers:", "        if 'default' in cls._servers:", "'default' server actions run for every server"),
    ('C18', 'sc3/base/model.py', "                fn.value(action, obj, msg, listener, *args, **kwargs)", "                fn.value(action, obj, msg, *args, **kwargs)", 'notification without its listener'),
    ('C18', 'sc3/base/model.py', "            elif listener is None:\n                del cls._registrations[obj][msg]", "            elif listener is None:\n                del cls._registrations[obj]", 'unregister(obj, msg) drops every message of the object'),
    ('C19', 'sc3/synth/envelope.py', "return cls([0, level, 0], [attack_time, release_time], curve)", "return cls([0, level, 0], [release_time, attack_time], curve)", 'Env.perc: attack and release exchanged'),
    ('C19', 'sc3/synth/envelope.py', "[attack_time, decay_time, release_time], curve, 2)", "[attack_time, decay_time, release_time], curve, 1)", 'Env.adsr: release node one early'),
    ('C19', 'sc3/synth/envelope.py', "release_level = bi.dbamp(-100) if curve_no == 2 else 0", "release_level = bi.dbamp(-100) if curve_no == 3 else 0", 'Env.cutoff: exponential release aimed at zero'),
    ('C08', 'sc3/base/clock.py', "        if self._drift:\n            from_time = _libsc3.main.elapsed_time()", "        if not self._drift:\n            from_time = _libsc3.main.elapsed_time()", 'AppClock scheduler re-schedules from its own time instead of the physical present'),
    ('C08', 'sc3/base/clock.py', "            while self._seconds <= value:\n                self._expired.append(self.queue.pop())", "            while True:\n                self._expired.append(self.queue.pop())", 'AppClock scheduler takes entries that are not due yet'),
    ('C08', 'sc3/base/clock.py', "                self._sched_add(delta, item)\n        except stm.StopStream:\n            pass", "                self._sched_add(delta, item)\n        except stm.StopStream:\n            raise", 'StopStream of a task escapes the AppClock scheduler'),
    ('C13', 'sc3/seq/patterns/filterpatterns.py', "            for _ in range(self.n):\n                inval = stream.next(first_inval)", "            for _ in range(self.n + 1):\n                inval = stream.next(first_inval)", 'Pdrop drops one value too many'),
    ('C13', 'sc3/seq/patterns/listpatterns.py', "                inval = yield stream_lst[indx % size].next(inval)", "                inval = yield stm.stream(self.lst[indx % size]).next(inval)", 'Pswitch1 restarts the chosen item on every pass'),
    ('C13', 'sc3/seq/patterns/listpatterns.py', "                pos += step_stream.next(inval)  # raises StopStream", "                pos -= step_stream.next(inval)  # raises StopStream", 'Pslide slides backwards'),
    ('C13', 'sc3/seq/patterns/listpatterns.py', "                    item = item[j % len(item)]", "                    item = item[0]", 'Place always takes the first element of a sub-list'),
    ('C13', 'sc3/seq/patterns/filterpatterns.py', "                inval = yield next - prev\n                prev = next", "                inval = yield next - prev", 'Pdiff keeps comparing with the first value'),
    ('C13', 'sc3/seq/patterns/filterpatterns.py', "                if trig:\n                    last_inval = stream.next(inval)", "                if not trig:\n                    last_inval = stream.next(inval)", 'Platch advances on a false trigger'),
    ('C13', 'sc3/seq/patterns/filterpatterns.py', "                    inval = yield (1 - c) * value", "                    inval = yield (1 + c) * value", 'Pprorate: the two parts do not add up'),
    ('C07', 'sc3/base/_oscinterface.py', "            self._raw_score.extend(entry.msg)", "            self._raw_score.extend(entry.bndl)", 'score bytes taken from the wrong field of an entry'),
    ('C07', 'sc3/base/_oscinterface.py', "        if _libsc3.main.current_tt is _libsc3.main.main_tt:\n            tailtime += _libsc3.main.current_tt._seconds", "        if _libsc3.main.current_tt is not _libsc3.main.main_tt:\n            tailtime += _libsc3.main.current_tt._seconds", 'score tail made absolute inside routines instead of outside'),
    ('C20', 'sc3/synth/ugen.py', "        self._synthdef = _libsc3.main._current_synthdef\n        if self._synthdef is not None:\n            self._synthdef._add_ugen(self)\n\n    def _collect_constants", "        self._synthdef = _libsc3.main._current_synthdef\n        if self._synthdef is not None:\n            pass\n\n    def _collect_constants", 'a new unit does not register with the definition being built'),
    ('C13', 'sc3/base/stream.py', "            indict = indict.copy()\n            indict.update(self.value)\n            return (yield indict)", "            indict.update(self.value)\n            return (yield indict)", 'embedding a dictionary writes into the input event'),
    ('C13', 'sc3/base/stream.py', "    if hasattr(obj, '__embed__'):\n        return obj.__embed__(inval)", "    if hasattr(obj, '__embed__'):\n        return obj.__embed__()", 'embed() drops the input value'),
    ('C13', 'sc3/seq/eventstream.py', "                self._stream = stm.embed(self.pattern, inval)\n                return next(self._stream)\n            else:\n                return self._stream.send(inval)", "                self._stream = stm.embed(self.pattern, inval)\n                return next(self._stream)\n            else:\n                return self._stream.send(None)", 'pattern value stream drops the input value after the first call'),
    ('C14', 'sc3/seq/eventstream.py', "                clock = clock or _libsc3.main.current_tt._clock\n                clock.play(self, quant)", "                clock = _libsc3.main.current_tt._clock\n                clock.play(self, quant)", 'event stream player ignores the clock it is given'),
    ('C03', 'sc3/synth/ugen.py', "        obj._add_to_synth()\n        return obj._init_ugen(*args)", "        obj._add_to_synth()\n        obj._add_to_synth()\n        return obj._init_ugen(*args)", 'a new unit is registered twice'),
    ('C02', 'sc3/synth/ugen.py', "[OutputProxy.new(rate, self, i) for i in range(channels)])", "[OutputProxy.new(rate, self, i) for i in range(channels - 1)])", 'a multi-output unit makes one output proxy too few'),
    ('C15', 'sc3/synth/ugen.py', "            return BinaryOpUGen.new(selector, input, self)", "            return BinaryOpUGen.new(selector, self, input)", 'reflected operator on a unit forgets to exchange the operands'),
    ('C17', 'sc3/synth/node.py', "            4, target.node_id, # 4 -> 'addReplace'", "            3, target.node_id, # 4 -> 'addReplace'", 'Synth.replace sends add action 3'),
    ('C17', 'sc3/synth/node.py', "        obj.node_id = obj.server._next_node_id() if node_id is None else node_id", "        obj.node_id = srv.Server.default._next_node_id() if node_id is None else node_id", 'node id taken from the default server instead of the node\'s own'),
    ('C18', 'sc3/base/_oscinterface.py', "        except:\n            _logger.error(\n                'Exception happened during processing '", "        except KeyError:\n            _logger.error(\n                'Exception happened during processing '", 'the receiver lets exceptions of the parser escape'),
    ('C18', 'sc3/base/_oscinterface.py', "            for timed_msg in packet.messages:", "            for timed_msg in packet.messages[1:]:", 'the first message of every packet is dropped'),
    ('C01', 'sc3/synth/ugen.py', "        if self.operator == '+':\n            self._optimize_add()\n            return self\n        if self.operator == '-':\n            self._optimize_sub()", "        if self.operator == '+':\n            self._optimize_sub()\n            return self\n        if self.operator == '-':\n            self._optimize_add()", 'additions are sent to the subtraction rewrite and vice versa'),
    ('C01', 'sc3/synth/ugen.py', "                input._descendants.add(replacement)\n                input._descendants.discard(self)", "                input._descendants.add(self)\n                input._descendants.discard(replacement)", 'after a rewrite the replaced unit stays a descendant and the replacement does not become one'),
    ('C11', 'sc3/base/stream.py', "        if self._next_nargs > 1:\n            return self.next_func(inval, self.data)", "        if self._next_nargs > 1:\n            return self.next_func(self.data, inval)", 'FunctionStream hands data and input value over in the wrong order'),
    ('C13', 'sc3/seq/patterns/valuepatterns.py', "                inval = yield bi.exprand(loval, hival)", "                inval = yield bi.rrand(loval, hival)", 'Pexprand draws from the uniform distribution'),
    ('C13', 'sc3/seq/patterns/valuepatterns.py', "                    self._calc_next(current, stepval), loval, hival)", "                    self._calc_next(current, stepval), hival, loval)", 'Pbrown folds with the bounds exchanged'),
    ('C06', 'sc3/base/_osclib.py', "            self._args.append((arg_type, arg_value))", "            self._args.append((arg_value, arg_type))", 'argument entry stored as (value, type)'),
    ('C13', 'sc3/seq/patterns/filterpatterns.py', "                    if inevent.get(key, False) is True or output is None:", "                    if inevent.get(key, False) is True and output is None:", 'Pgate draws a new value only when the gate is open AND nothing is held'),
    ('C13', 'sc3/seq/patterns/filterpatterns.py', "                rout.rand_seed = stream.next(inval)\n                inval = yield from stm.embed(stm.stream(rout), inval)", "                inval = yield from stm.embed(stm.stream(rout), inval)\n                rout.rand_seed = stream.next(inval)", 'Pseed seeds the routine after it has run'),
    ('C13', 'sc3/seq/patterns/funcpatterns.py', "                inval = yield next(iterator)\n                while True:\n                    inval = yield iterator.send(inval)", "                yield next(iterator)\n                while True:\n                    yield iterator.send(inval)", 'Prout embedded keeps sending its first input value (the original defect)'),
    ('C17', 'sc3/synth/node.py', "                    bus.index, bus.channels])", "                    bus.channels, bus.index])", '/n_mapn triple with index and channel count exchanged'),
    ('C03', 'sc3/synth/ugen.py', "        elif isinstance(obj, (str, tuple)):\n            super(aob.AbstractSequence, self).__init__([obj])", "        elif isinstance(obj, (str, tuple)):\n            super(aob.AbstractSequence, self).__init__(obj)", 'a tuple given to ChannelList is spread over channels'),
]


def run(prop, tree):
    code = ("import json,sys\nfrom vf.pyvc import api\nfrom vf import props\n"
            "r=api.verify(%r, props.PROPS[%r]['contracts'], 'quick', 0)\n"
            "red=[x['name'] for x in r['results'] if x['result'] not in ('unsat',)]\n"
            "print(json.dumps({'viol':len(r['violations']),'errors':[e for e in r['errors']],"
            "'red':red,'oos':len(r['out_of_subset']),'obl':r['obligations'],'dis':r['discharged']}))\n" % (prop, prop))
    env = dict(os.environ, SC3_REPO=tree, PYTHONPATH=VERIF)
    p = subprocess.run(['python3-vt', '-c', code], cwd=VERIF, env=env, capture_output=True, text=True, timeout=1800)
    try:
        return json.loads(p.stdout.strip().split('\n')[-1])
    except Exception:
        return {'viol': -1, 'errors': [p.stderr[-500:]], 'red': [], 'oos': 0}


def main(only=None, quiet=False):
    tree = tempfile.mkdtemp(prefix='sc3_selftest_')
    ok = True
    out = {'harmless': [], 'breaking': []}
    try:
        shutil.copytree('/repo/sc3', os.path.join(tree, 'sc3'))
        for kind, edits in (('harmless', HARMLESS), ('breaking', BREAKING)):
            for prop, rel, old, new, what in edits:
                if only and prop != only:
                    continue
                path = os.path.join(tree, rel)
                src = open(path).read()
                if src.count(old) != 1:
                    print('SKIP (pattern not unique/found): %s %s' % (prop, what))
                    out[kind].append({'prop': prop, 'what': what, 'status': 'skipped'})
                    continue
                open(path, 'w').write(src.replace(old, new))
                try:
                    r = run(prop, tree)
                finally:
                    open(path, 'w').write(src)
                hard_err = [e for e in r['errors'] if 'required obligations not generated' not in e]
                if kind == 'harmless':
                    good = r['viol'] == 0 and not r['errors']
                    status = 'quiet' if good else 'ALARM'
                else:
                    good = r['viol'] > 0 or bool(r['red'])
                    status = ('violation' if r['viol'] > 0 else 'red(undecided)') if good else 'SURVIVED'
                ok = ok and good
                if not quiet:
                    print('%-9s %-4s %-45s -> %s (violations=%s red=%d oos=%d errors=%d)'
                          % (kind, prop, what, status, r['viol'], len(r['red']), r['oos'], len(r['errors'])))
                out[kind].append({'prop': prop, 'what': what, 'status': status, 'violations': r['viol'],
                                  'red': r['red'][:3], 'out_of_subset': r['oos'], 'errors': r['errors'][:2]})
    finally:
        shutil.rmtree(tree, ignore_errors=True)
    if only:
        return out
    with open(os.path.join(VERIF, 'selftest_result.json'), 'w') as f:
        json.dump(out, f, indent=1)
    print('SELFTEST', 'ok' if ok else 'FAILED')
    sys.exit(0 if ok else 1)


if __name__ == '__main__':
    main()
