"""Shared, stdlib-only helpers for the bounded drivers (run under /venv's 3.12
interpreter) and the orchestrator (run under python3-vt, which has z3).

A driver is a module ``vf.drivers.Cxx`` with ``main(report)``; it records what it
explored with ``report.bounded(...)`` and what failed with
``report.violation(...)``.  It never prints VIOLATION lines itself and never
decides about known findings: the orchestrator (vf/run.py) does both.
"""
import json
import os
import sys
import time
import random
import traceback

VERIF = os.path.dirname(os.path.dirname(os.path.abspath(__file__)))
REPO = os.environ.get('SC3_REPO', '/repo')


def jsonable(x, depth=0):
    """Best-effort conversion of a case description to JSON."""
    if depth > 8:
        return repr(x)
    if isinstance(x, (str, int, bool)) or x is None:
        return x
    if isinstance(x, float):
        if x != x or x in (float('inf'), float('-inf')):
            return repr(x)
        return x
    if isinstance(x, (bytes, bytearray)):
        return {'bytes_hex': bytes(x).hex()}
    if isinstance(x, dict):
        return {str(k): jsonable(v, depth + 1) for k, v in x.items()}
    if isinstance(x, (list, tuple, set, frozenset)):
        return [jsonable(v, depth + 1) for v in x]
    return repr(x)


class Report:
    """Result of one bounded driver run (or of the proof part)."""

    def __init__(self, prop, tier='quick', seed=0):
        self.prop = prop
        self.tier = tier
        self.seed = seed
        self.rng = random.Random(seed)
        self.bounded_items = []
        self.violations = []
        self.notes = []
        self.errors = []
        self.t0 = time.time()

    # -- what was explored -------------------------------------------------
    def bounded(self, name, function, bound, evaluations, distinct_nontrivial,
                rule, samples, exhaustive=False, extra=None):
        item = {
            'name': name, 'function': function, 'bound': bound,
            'evaluations': int(evaluations),
            'distinct_nontrivial': int(distinct_nontrivial),
            'rule': rule, 'samples': jsonable(list(samples)[:5]),
            'exhaustive': bool(exhaustive), 'kind': 'bounded',
        }
        if extra:
            item.update(jsonable(extra))
        self.bounded_items.append(item)

    # -- what failed -------------------------------------------------------
    def violation(self, obligation, what, input=None, key=None, observed=None,
                  expected=None, replay=None):
        """obligation: name of the contract clause; what: one line;
        input: the failing input/history (JSON-able, replayable);
        key: stable identifier of *this* failing site+input class, used only to
        match entries of known_findings.json (defaults to obligation);
        replay: dict {driver, func, args} the driver's ``replay`` understands."""
        v = {
            'obligation': obligation, 'what': what,
            'input': jsonable(input), 'key': key or obligation,
            'observed': jsonable(observed), 'expected': jsonable(expected),
            'replay': jsonable(replay),
        }
        # keep the first (usually smallest) few per key
        n = sum(1 for w in self.violations if w['key'] == v['key'])
        if n < 3:
            self.violations.append(v)

    def note(self, text):
        self.notes.append(text)

    def error(self, text):
        """Checker problem (crash of the harness, not of sc3)."""
        self.errors.append(text)

    def as_dict(self):
        return {
            'property': self.prop, 'tier': self.tier, 'seed': self.seed,
            'bounded': self.bounded_items, 'violations': self.violations,
            'notes': self.notes, 'errors': self.errors,
            'wall_s': round(time.time() - self.t0, 3),
        }

    def dump(self, path):
        with open(path, 'w') as f:
            json.dump(self.as_dict(), f, indent=1)


def driver_main(prop, main, replay=None):
    """Entry point for ``python -m vf.drivers.Cxx --tier T --seed N --out F``
    and ``--replay FILE``."""
    import argparse
    ap = argparse.ArgumentParser()
    ap.add_argument('--tier', default=os.environ.get('VERIF_TIER', 'quick'))
    ap.add_argument('--seed', type=int,
                    default=int(os.environ.get('VERIF_SEED', '0') or 0))
    ap.add_argument('--out', default=None)
    ap.add_argument('--replay', default=None)
    ap.add_argument('--only', default=None,
                    help='comma-separated sub-check names (driver specific)')
    a = ap.parse_args()
    rep = Report(prop, a.tier, a.seed)
    rep.only = set(a.only.split(',')) if a.only else None
    if a.replay:
        if replay is None:
            print('driver has no replay'); sys.exit(3)
        with open(a.replay) as f:
            case = json.load(f)
        ok = replay(case, rep)
        # exit 1 = the failure reproduces on this tree
        for v in rep.violations:
            print('REPRODUCED', v['obligation'], v['what'])
        sys.exit(1 if (rep.violations or ok is False) else 0)
    try:
        main(rep)
    except Exception as e:
        # An exception that comes out of sc3 code while the driver sets up or runs a
        # scenario which completes on the unchanged tree is the library failing on
        # an input it must handle: a violation with the traceback as witness. An
        # exception raised by the harness itself stays a checker error.
        tb = traceback.extract_tb(e.__traceback__)
        last = tb[-1] if tb else None
        in_sc3 = last is not None and os.path.abspath(last.filename).startswith(
            os.path.abspath(REPO) + os.sep)
        if in_sc3:
            site = '%s:%s' % (os.path.relpath(last.filename, REPO), last.name)
            harness = [f for f in tb if '/vf/drivers/' in f.filename]
            where = harness[-1].name if harness else '?'
            rep.violation(
                obligation='%s.completes' % prop,
                what='%s raised %s: %s in %s while the driver ran %s (this scenario completes on the '
                     'unchanged tree)' % (site, type(e).__name__, str(e)[:200], site, where),
                input={'traceback': traceback.format_exc()[-1500:]},
                key='%s.completes:%s:%s' % (prop, type(e).__name__, site))
        else:
            rep.error('driver crashed: ' + traceback.format_exc())
    if a.out:
        rep.dump(a.out)
    else:
        json.dump(rep.as_dict(), sys.stdout, indent=1)
    sys.exit(0)


def wants(rep, name):
    only = getattr(rep, 'only', None)
    return only is None or name in only


def silence_sc3_logging():
    import logging
    logging.disable(logging.CRITICAL)
