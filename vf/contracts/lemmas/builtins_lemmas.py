"""Ghost lemma functions (never executed by sc3): theorems that relate two
calls of real functions. pyvc inlines the *real* bodies from /repo."""
from sc3.base import builtins as bi


def clip_idempotent(x, lo, hi):
    r = bi.clip(x, lo, hi)
    return bi.clip(r, lo, hi) == r


def midicps_cpsmidi(x):
    return bi.midicps(bi.cpsmidi(x))


def cpsmidi_midicps(x):
    return bi.cpsmidi(bi.midicps(x))


def midiratio_ratiomidi(x):
    return bi.midiratio(bi.ratiomidi(x))


def ratiomidi_midiratio(x):
    return bi.ratiomidi(bi.midiratio(x))


def octcps_cpsoct(x):
    return bi.octcps(bi.cpsoct(x))


def cpsoct_octcps(x):
    return bi.cpsoct(bi.octcps(x))


def dbamp_ampdb(x):
    return bi.dbamp(bi.ampdb(x))


def ampdb_dbamp(x):
    return bi.ampdb(bi.dbamp(x))
