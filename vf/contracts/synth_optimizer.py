"""Contracts for the arithmetic rewrites of the graph optimiser (C01): BinaryOpUGen.
_optimize_to_sum3 / _optimize_to_sum4 / _optimize_to_muladd / _optimize_addneg / _optimize_sub
in sc3/synth/ugen.py.

"Compilation preserves the meaning of the graph function": every rewrite replaces the unit
`self` (a + b or a - b) by a new unit that denotes the same signal, and removes only a unit
nobody else reads.

Ghost denotation: den(u) is a real per unit / input value (a signal value at an arbitrary
instant).  Axioms per operand shape (what the operand units mean; the constructors' own
contracts - BinaryOpUGen/MulAdd/Sum3/Sum4._new1, proved under C01 - give the meaning of the
units they build):

    self '+' : den(self) = den(a) + den(b)          self '-' : den(self) = den(a) - den(b)
    plus operand o = p + q ;  times operand o = p * q ;  neg operand o = -p ;  Sum3 operand
    o = p + q + r ;  any other unit or a number: unconstrained

Postcondition of every rewrite function, for all operand shapes (16-25 type cases each, incl.
both operands being the SAME object) and any number of readers of the operands:

  * returns None (or does nothing): no unit is removed, none is created;
  * otherwise: exactly one operand unit is removed - an operand of the matching shape whose
    ONLY reader is `self` (len(_descendants) == 1) - exactly one new unit is created and
    returned, den(new) == den(self), the removed unit is NOT among the new unit's inputs, the
    new unit inherits self's readers, and the reader sets are updated for (new, removed).

Opaque here: rate lookups (ugen_param(x)._as_ugen_rate() == 'demand' is a ghost boolean per
operand), MulAdd._can_be_muladd (ghost boolean per call), SynthDef._remove_ugen/_replace_ugen and
_optimize_update_descendants (ghost events; the reader-set bookkeeping itself is exercised by
the bounded driver).
"""
import ast
import itertools
import z3
from vf.pyvc.spec import contract, REGISTRY
from vf.pyvc.values import *
from vf.pyvc import values as VV
from vf.pyvc.engine import Raised, Unsupported

F = 'sc3/synth/ugen.py'
G = 'sc3/synth/_graphparam.py'

SHAPES = {
    'plus': ('OpPlus', {'BinaryOpUGen', 'BasicOpUGen', 'UGen', 'SynthObject'}, '+', 2),
    'times': ('OpTimes', {'BinaryOpUGen', 'BasicOpUGen', 'UGen', 'SynthObject'}, '*', 2),
    'neg': ('OpNeg', {'UnaryOpUGen', 'BasicOpUGen', 'UGen', 'SynthObject'}, 'neg', 1),
    'sum3': ('OpSum3', {'Sum3', 'UGen', 'SynthObject'}, None, 3),
    'unit': ('OpOther', {'UGen', 'SynthObject'}, None, 0),
}
ALL_CLASSES = ('BinaryOpUGen', 'UnaryOpUGen', 'BasicOpUGen', 'Sum3', 'Sum4', 'MulAdd', 'UGen', 'SynthObject',
               'OutputProxy')


def operand(shape, oid):
    if shape == 'num':
        return vreal(z3.Real('den.' + oid))
    cls, isa, _, _ = SHAPES[shape]
    return V('ref', cls=cls, oid=oid, extra={'isinstance': {c: z3.BoolVal(c in isa) for c in ALL_CLASSES},
                                             'shape': shape})


def inputs_of(n):
    def kind(eng, name):          # name = '<oid>.inputs'
        oid = name.rsplit('.', 1)[0]
        return vtuple([V('any', z3.Const('%s.in%d' % (oid, j), VV.Any)) for j in range(n)])
    return kind


def desc_kind(eng, name):
    oid = name.rsplit('.', 1)[0]
    n = z3.Int(oid + '.readers')
    return V('seq', extra={'len': n, 'facts': [n >= 0], 'get': None, 'owner': oid})


def den(v):
    if v.k == 'ref':
        return z3.Real('den.' + str(v.oid))
    if v.k == 'any':
        return z3.Real('den.' + v.z.decl().name())
    if v.k in ('int', 'real'):
        return to_real(v)
    raise ValueError(v)


def shape_axioms(sa, sb, same):
    ax = []
    for oid, sh in (('a', sa),) + ((('b', sb),) if not same else ()):
        if sh == 'num':
            continue
        n = SHAPES[sh][3]
        ins = [z3.Real('den.%s.in%d' % (oid, j)) for j in range(n)]
        d = z3.Real('den.' + oid)
        if sh == 'plus':
            ax.append(d == ins[0] + ins[1])
        elif sh == 'times':
            ax.append(d == ins[0] * ins[1])
        elif sh == 'neg':
            ax.append(d == -ins[0])
        elif sh == 'sum3':
            ax.append(d == ins[0] + ins[1] + ins[2])
        ax.append(z3.Int(oid + '.readers') >= 0)
    return ax


def fields_for(sa, sb, op):
    f = {'BinaryOpUGen': {'operator': 'const:%r' % op, '_synthdef': 'obj', '_descendants': 'obj',
                          'inputs': None},
         'Replacement': {'_descendants': 'any'}}
    for sh, (cls, isa, oper, n) in SHAPES.items():
        f[cls] = {'_descendants': desc_kind, 'inputs': inputs_of(n)}
        if oper is not None:
            f[cls]['operator'] = 'const:%r' % oper
    return f


def self_inputs(sa, sb, same):
    def kind(eng, name):
        a = operand(sa, 'a')
        b = a if same else operand(sb, 'b')
        return vtuple([a, b])
    return kind


# ---- hooks --------------------------------------------------------------------------------------
def h_getattr(eng, obj, name, st, node):
    if obj.k == 'obj' and obj.oid == 'self._synthdef' and name in ('_remove_ugen', '_replace_ugen'):
        def ev(eng, args, kwargs, st, node, _n=name):
            st.trace.append((_n, tuple(args)))
            return [(st, NONE)]
        return [(st, V('func', py=('spec', ev)))]
    if obj.k == 'obj' and obj.oid == 'param' and name == '_as_ugen_rate':
        def rate(eng, args, kwargs, st, node, _o=obj):
            return [(st, V('obj', oid='rate', extra={'of': _o.extra['of']}))]
        return [(st, V('func', py=('spec', rate)))]
    if obj.k == 'ref' and obj.cls == 'Replacement' and name == '_optimize_graph':
        def og(eng, args, kwargs, st, node, _o=obj):
            st.trace.append(('optimize-again', _o))
            return [(st, NONE)]
        return [(st, V('func', py=('spec', og)))]
    return None


def h_compare(eng, op, a, b, st, node):
    if isinstance(op, (ast.Eq, ast.NotEq)):
        for p, q in ((a, b), (b, a)):
            if p.k == 'obj' and p.oid == 'rate' and q.k == 'str' and q.py == 'demand':
                of = p.extra['of']
                nm = str(of.oid) if of.k == 'ref' else 'num'
                r = z3.Bool('demand.' + nm)
                return z3.Not(r) if isinstance(op, ast.NotEq) else r
    if isinstance(op, (ast.Is, ast.IsNot)) and a.k in ('ref', 'real') and b.k in ('ref', 'real'):
        r = z3.BoolVal(a is b)
        return z3.Not(r) if isinstance(op, ast.IsNot) else r
    return None


def h_setattr(eng, obj, name, v, st, node):
    if obj.k == 'ref' and obj.cls == 'Replacement' and name == '_descendants':
        st.trace.append(('inherit', obj, v))
    return None


def ugen_param(eng, selfv, args, kwargs, st, node):
    return [(st, V('obj', oid='param', extra={'of': args[0]}))]


def maker(kind):
    def pol(eng, selfv, args, kwargs, st, node):
        r = V('ref', cls='Replacement', oid='new!%d' % next(eng.counter))
        st.trace.append(('new', kind, tuple(args), r))
        return [(st, r)]
    return pol


def can_be_muladd(eng, selfv, args, kwargs, st, node):
    return [(st, vbool(eng.fresh('can_be_muladd', z3.BoolSort())))]


def update_desc(eng, selfv, args, kwargs, st, node):
    st.trace.append(('update', tuple(args)))
    return [(st, NONE)]


POLICIES = {G + '::ugen_param': ugen_param, 'Sum3.new': maker('Sum3'), 'Sum4.new': maker('Sum4'),
            'MulAdd.new': maker('MulAdd'), 'BinaryOpUGen.new': maker('BinaryOpUGen'),
            'SynthObject.new': maker('?'), 'UGen.new': maker('?'), 'BasicOpUGen.new': maker('?'),
            'MulAdd._can_be_muladd': can_be_muladd,
            'BinaryOpUGen._optimize_update_descendants': update_desc}


def den_new(kind, args):
    if kind in ('Sum3', 'Sum4'):
        return sum((den(x) for x in args[1:]), den(args[0]))
    if kind == 'MulAdd':
        return den(args[0]) * den(args[1]) + den(args[2])
    if kind == 'BinaryOpUGen':
        sel, x, y = args
        if sel.k == 'str' and sel.py == '-':
            return den(x) - den(y)
        if sel.k == 'str' and sel.py == '+':
            return den(x) + den(y)
    return None


def rewrite_post(op, absorbable, returns_replacement=True, extra_events=()):
    """absorbable: shapes whose unit may be absorbed by this rewrite"""
    def post(c):
        t = [e for e in c.trace if e[0] in ('_remove_ugen', '_replace_ugen', 'new', 'inherit', 'update',
                                            'optimize-again')]
        r = c.resultv
        news = [e for e in t if e[0] == 'new']
        if not news:
            return z3.BoolVal(not t and r.k == 'none')                   # nothing happened at all
        rem = [e for e in t if e[0] == '_remove_ugen']
        inh = [e for e in t if e[0] == 'inherit']
        upd = [e for e in t if e[0] == 'update']
        if len(news) != 1 or len(rem) != 1 or len(inh) != 1 or len(upd) != 1 or len(rem[0][1]) != 1:
            return z3.BoolVal(False)
        new = news[0]
        gone = rem[0][1][0]
        dn = den_new(new[1], new[2])
        if dn is None or gone.k != 'ref' or not gone.extra or gone.extra.get('shape') not in absorbable:
            return z3.BoolVal(False)
        rest = [e[0] for e in t if e[0] in ('_replace_ugen', 'optimize-again')]
        ok = (all(x is not gone for x in new[2])                               # the removed unit is not read by the new one
              and inh[0][1] is new[3] and inh[0][2].k == 'obj' and inh[0][2].oid == 'self._descendants'
              and len(upd[0][1]) == 2 and upd[0][1][0] is new[3] and upd[0][1][1] is gone
              and rest == list(extra_events)
              and ((r is new[3]) if returns_replacement else r.k == 'none'))
        if extra_events and ok:
            rep = [e for e in t if e[0] == '_replace_ugen'][0]
            again = [e for e in t if e[0] == 'optimize-again'][0]
            ok = ok and len(rep[1]) == 2 and rep[1][0].k == 'ref' and rep[1][0].oid == 'self' \
                and rep[1][1] is new[3] and again[1] is new[3]
        den_self = (z3.Real('den.a') + z3.Real('den.b' if gone is not None else 'den.b')) if op == '+' \
            else (z3.Real('den.a') - z3.Real('den.b'))
        return z3.And(z3.BoolVal(bool(ok)),
                      z3.Int(str(gone.oid) + '.readers') == 1,                 # nobody else reads the removed unit
                      dn == den_self)                                          # same signal
    return post


def variants(qual, op, shapes, absorbable, returns_replacement=True, extra_events=(), nonlinear=False):
    for sa, sb in itertools.product(shapes, shapes):
        for same in ((False, True) if sa == sb and sa != 'num' else (False,)):
            f = fields_for(sa, sb, op)
            f['BinaryOpUGen']['inputs'] = self_inputs(sa, sb, same)
            ax = shape_axioms(sa, sb, same)
            if same:
                ax.append(z3.Real('den.b') == z3.Real('den.a'))
            contract(F, qual, props=('C01',), params={'self': 'self'},
                     ensures=[('nothing-happens,or-one-sole-reader-operand-absorbed-into-an-equal-signal',
                               rewrite_post(op, absorbable, returns_replacement, extra_events))],
                     axioms=[(lambda _ax=ax: _ax)],
                     fields=f, hooks={'getattr': h_getattr, 'compare': h_compare, 'setattr': h_setattr},
                     policies=POLICIES, native=False,
                     class_modules={k: F for k in f})
            key = '%s::%s#%s-%s%s' % (F, qual, sa, sb, '-same-object' if same else '')
            REGISTRY[key] = REGISTRY.pop('%s::%s' % (F, qual))
            REGISTRY[key].key = key


variants('BinaryOpUGen._optimize_to_sum3', '+', ('plus', 'unit', 'num', 'times'), {'plus'})
variants('BinaryOpUGen._optimize_to_sum4', '+', ('sum3', 'plus', 'unit', 'num'), {'sum3'})
variants('BinaryOpUGen._optimize_to_muladd', '+', ('times', 'plus', 'unit', 'num'), {'times'})
variants('BinaryOpUGen._optimize_addneg', '+', ('neg', 'plus', 'unit', 'num'), {'neg'})
variants('BinaryOpUGen._optimize_sub', '-', ('neg', 'plus', 'unit', 'num'), {'neg'},
         returns_replacement=False, extra_events=('_replace_ugen', 'optimize-again'))


# ---- dead-code elimination: UGen._perform_dead_code_elimination ---------------------------------
# A unit nobody reads is removed, after it has been taken out of the reader set of each of its
# inputs; an input is re-optimised only while it is still the unit registered at its index
# (an earlier step may have replaced it).  A unit that has readers is left completely alone.
from vf.pyvc.spec import Loop


def dce_inputs(eng, name):
    n = z3.Int('self.inputs.len')

    def get(eng_, i, st_):
        tag = str(z3.simplify(i)).replace(' ', '')
        isu = z3.Bool('is_ugen[%s]' % tag)
        return V('ref', cls='InputUnit', oid='input[%s]' % tag,
                 extra={'isinstance': {c: (isu if c in ('UGen', 'SynthObject') else z3.BoolVal(False))
                                       for c in ALL_CLASSES}, 'index': i})
    return V('seq', extra={'len': n, 'facts': [n >= 0], 'get': get})


def readers_kind(eng, name):
    oid = name.rsplit('.', 1)[0]
    return V('ref', cls='ReaderSet', oid=oid + '._descendants',
             extra={'truth': z3.Bool('has_readers(%s)' % oid), 'owner': oid})


def dce_getattr(eng, obj, name, st, node):
    if obj.k == 'ref' and obj.cls == 'ReaderSet' and name == 'discard':
        def discard(eng, args, kwargs, st, node, _o=obj):
            st.trace.append(('discard', _o.extra['owner'], tuple(args)))
            return [(st, NONE)]
        return [(st, V('func', py=('spec', discard)))]
    if obj.k == 'obj' and obj.oid == 'self._synthdef':
        if name == '_remove_ugen':
            def rm(eng, args, kwargs, st, node):
                st.trace.append(('_remove_ugen', tuple(args)))
                return [(st, NONE)]
            return [(st, V('func', py=('spec', rm)))]
        if name == '_children':
            return [(st, V('obj', oid='children'))]
    if obj.k == 'ref' and obj.cls == 'InputUnit' and name == '_optimize_graph':
        def og(eng, args, kwargs, st, node, _o=obj):
            st.trace.append(('optimize', _o))
            return [(st, NONE)]
        return [(st, V('func', py=('spec', og)))]
    return None


def dce_getitem(eng, obj, idx, st, node):
    if obj.k == 'obj' and obj.oid == 'children':
        return [(st, V('obj', oid='child-at', extra={'index': idx}))]
    return None


def dce_compare(eng, op, a, b, st, node):
    if isinstance(op, (ast.Is, ast.IsNot)):
        for p, q in ((a, b), (b, a)):
            if p.k == 'obj' and p.oid == 'child-at' and q.k == 'ref' and q.cls == 'InputUnit':
                ok = p.extra['index'].k == 'int' and z3.eq(p.extra['index'].z, z3.Int(str(q.oid) + '._synth_index'))
                if not ok:
                    raise Unsupported(node, 'children[...] looked up at another index than the input\'s own')
                r = z3.Bool('still_registered(%s)' % q.oid)
                st.trace.append(('checked-registered', q))
                return z3.Not(r) if isinstance(op, ast.IsNot) else r
    return None


def dce_since(trace):
    idx = -1
    for i, e in enumerate(trace):
        if e[0] == 'loop-head':
            idx = i
    return trace[idx + 1:] if idx >= 0 else None


def dce_pass(c, L):
    ev = dce_since(c.trace)
    if not ev:
        return z3.BoolVal(True)
    ev = [e for e in ev if e[0] in ('discard', 'optimize', '_remove_ugen', 'checked-registered')]
    item = c.pre.self.v('inputs').extra['get'](c._eng, L.i - 1, c.st)
    oid = item.oid
    isu = item.extra['isinstance']['UGen']
    has = z3.Bool('has_readers(%s)' % oid)
    still = z3.Bool('still_registered(%s)' % oid)
    dis = [e for e in ev if e[0] == 'discard']
    opt = [e for e in ev if e[0] == 'optimize']
    if [e for e in ev if e[0] == '_remove_ugen'] or len(dis) > 1 or len(opt) > 1:
        return z3.BoolVal(False)
    ok = True
    for e in dis:      # only THIS input's reader set, and only `self` is taken out of it
        ok = ok and e[1] == oid and len(e[2]) == 1 and e[2][0].k == 'ref' and e[2][0].oid == 'self'
    for e in opt:      # only THIS input is re-optimised, after the discard
        ok = ok and e[1].oid == oid and bool(dis) and ev.index(dis[0]) < ev.index(e)
    return z3.And(z3.BoolVal(bool(ok)),
                  z3.BoolVal(bool(dis)) == z3.And(isu, has),                 # discarded iff a unit that has readers
                  z3.BoolVal(bool(opt)) == z3.And(isu, has, still))          # re-optimised iff still registered


def dce_post(c):
    t = [e for e in c.trace if e[0] in ('discard', 'optimize', '_remove_ugen', 'loop-head')]
    has = z3.Bool('has_readers(self)')
    r = c.result
    rm = [e for e in t if e[0] == '_remove_ugen']
    if not [e for e in t if e[0] == 'loop-head']:
        return z3.And(has, z3.Not(r), z3.BoolVal(not t))                      # has readers: untouched
    ok = (len(rm) == 1 and len(rm[0][1]) == 1 and rm[0][1][0].k == 'ref'
          and rm[0][1][0].oid == 'self')                                      # itself, exactly once
    return z3.And(z3.Not(has), r, z3.BoolVal(bool(ok)))


contract(F, 'SynthObject._perform_dead_code_elimination', props=('C01',), params={'self': 'self'},
         ensures=[('unread-unit-removed-after-leaving-its-inputs-reader-sets;read-unit-untouched', dce_post)],
         loops={0: Loop(inv=dce_pass, kinds={'input': (lambda eng, name: V('obj', oid='havoc-input'))})},
         fields={'SynthObject': {'_descendants': readers_kind, 'inputs': dce_inputs, '_synthdef': 'obj'},
                 'InputUnit': {'_descendants': readers_kind, '_synth_index': 'int'}, 'ReaderSet': {}},
         hooks={'getattr': dce_getattr, 'getitem': dce_getitem, 'compare': dce_compare},
         class_modules={'SynthObject': F, 'InputUnit': F, 'ReaderSet': F}, native=False,
         note='reader sets are opaque objects with a ghost truth value; what _optimize_graph of an input does '
              'is that unit\'s own contract')
