# vf/drivers/C17.py    run as:  /venv/bin/python -m vf.drivers.C17 --tier quick --seed 0 --out f.json
"""C17 -- client objects speak the server command protocol and keep ids
consistent.

Every OSC message is captured at the single choke point of NRT mode
(``main._osc_interface.send_msg / send_bundle``), re-encoded with the
library's own encoder exactly as the NRT score does, decoded again with the
independent OSC decoder of vf/specs/server_cmds.py and judged there against
the Server Command Reference grammar.

Clauses (violation keys are ``C17.<clause>:<site>``):

conform  every emitted message (completion messages included) conforms;
ids      it mentions only node / buffer / bus ids the client obtained
         (ids of the objects created so far, root 0, the default groups,
         -1 where the reference gives it a meaning);
create   creating an object emits its creation command with the object's id,
         add action number and target id;
cmd      a method emits its command with the object's id;
order    (Buffer.cue) arguments in the positions of the reference;
free     free emits the matching free command for every owned id exactly
         once, a second free emits none; Buffer.free_all: one /b_free per
         allocated buffer number; after everything is freed the allocators
         can hand out every index of the client's partition again;
bind     commands issued inside ``with server.bind():`` reach the wire as ONE
         bundle, in issue order, at block exit -- nothing while the block runs
         and nothing at all if it raises (differential: the same history run
         without bind()).

Sub-checks (``--only``): singles (every applicable operation after a fixture,
with bind/raise variants), pairs (all pairs over a reduced alphabet), random
(random histories over the full alphabet with random bind structure).
"""
import os
import concurrent.futures as cf
import multiprocessing as mp
import random

from vf.common import driver_main, wants, silence_sc3_logging
from vf.specs import server_cmds as sc

NPROC = 16
ACTIONS = ['addToHead', 'addToTail', 'addBefore', 'addAfter', 'addReplace']
ACTNUM = {a: i for i, a in enumerate(ACTIONS)}   # Server Command Reference
CONV = {'addToHead': 'head', 'addToTail': 'tail', 'addBefore': 'before',
        'addAfter': 'after', 'addReplace': 'replace'}
CREATE_CMD = {'Synth': '/s_new', 'Group': '/g_new', 'ParGroup': '/p_new'}
PER_CLIENT = 32   # buffers, control buses and private audio buses per client
DEFNAME = 'c17def'
PATH = '/nonexistent/c17.wav'


class _Boom(Exception):
    """Raised by the driver inside bind() blocks."""


def _pycopy(x):
    if isinstance(x, (list, tuple)):
        return [_pycopy(v) for v in x]
    if isinstance(x, (bytes, bytearray, memoryview)):
        return bytes(x)
    return x


def _first_chooser(lst):
    return sorted(lst, key=lambda b: (getattr(b, 'start', 0), repr(b)))[0]


# --------------------------------------------------------------------------
# environment: one per process
# --------------------------------------------------------------------------

class Env:
    _inst = {}

    @classmethod
    def get(cls):
        pid = os.getpid()
        if pid not in cls._inst:
            cls._inst[pid] = cls()
        return cls._inst[pid]

    def __init__(self):
        silence_sc3_logging()
        import warnings
        warnings.simplefilter('ignore')
        import sc3
        sc3.init('nrt')
        from sc3.base import main as _m
        from sc3.base import builtins as bi
        from sc3.base.netaddr import NetAddr
        from sc3.synth.server import Server, ServerOptions
        from sc3.synth import node, buffer, bus
        self.main = _m.main
        self.iface = _m.main._osc_interface
        bi.choice = _first_chooser          # deterministic tie-breaks
        self.Server = Server
        self.node, self.buffer, self.bus = node, buffer, bus
        o = ServerOptions()
        o.max_logins = 4
        o.control_buses = 4 * PER_CLIENT
        o.audio_buses = o.first_private_bus() + 4 * PER_CLIENT
        o.buffers = 4 * PER_CLIENT
        self.server = Server('c17_%d' % os.getpid(),
                             NetAddr('127.0.0.1', 57333), o)
        Server.default = self.server
        self.events = []
        self._depth = 0
        self._install_capture()
        self._synthdef = None
        self.part = {}
        for cid in range(4):
            self.part[cid] = {k: self.count_free(cid, k, fresh=True)
                              for k in ('buffer', 'control', 'audio')}
        self.server._set_client_id(0)

    # -- capture -------------------------------------------------------------
    def _install_capture(self):
        iface = self.iface
        orig_msg, orig_bndl = iface.send_msg, iface.send_bundle
        env = self

        def send_msg(target, *args):
            c = _pycopy(args)
            env._depth += 1
            try:
                orig_msg(target, *args)
            finally:
                env._depth -= 1
            if env._depth == 0:
                env._record('msg', None, [c])

        def send_bundle(target, time, *elements):
            c = _pycopy(elements)
            env._depth += 1
            try:
                orig_bndl(target, time, *elements)
            finally:
                env._depth -= 1
            if env._depth == 0:
                env._record('bundle', time, c)

        iface.send_msg = send_msg
        iface.send_bundle = send_bundle

    def _record(self, kind, time, elems):
        st = self.main.current_tt._seconds
        ev = {'kind': kind, 'py': elems, 'msgs': [], 'bad': None}
        try:
            if kind == 'msg':
                dgram = self.iface._build_msg(st, list(elems[0])).dgram
            else:
                dgram = self.iface._build_bundle(st, [time] + elems).dgram
            ev['msgs'] = sc.flatten_packet(sc.decode_packet(dgram))
        except sc.OscDecodeError as e:
            ev['bad'] = 'the encoded packet does not decode: %s' % e
        self.events.append(ev)

    # -- helpers -------------------------------------------------------------
    def reset(self, cid):
        self.server._set_client_id(cid)
        self.events = []

    def synthdef(self):
        if self._synthdef is None:
            from sc3.synth.synthdef import SynthDef
            from sc3.synth.ugens import Out, SinOsc
            self._synthdef = SynthDef(
                DEFNAME, lambda freq=440, amp=0.1: Out.ar(
                    0, SinOsc.ar(freq) * amp))
        return self._synthdef

    def new_single(self, kind):
        """One index through the public objects, without OSC traffic.
        Returns the object or None when the library reports no space."""
        try:
            if kind == 'buffer':
                return self.buffer.Buffer(1, 1, self.server, alloc=False)
            if kind == 'control':
                return self.bus.ControlBus(1, self.server)
            return self.bus.AudioBus(1, self.server)
        except self.bus.BusException:
            return None
        except Exception as e:
            if 'buffer numbers' in str(e):
                return None
            raise

    def count_free(self, cid, kind, fresh=False):
        if fresh:
            self.server._set_client_id(cid)
        n = 0
        while n < 100000 and self.new_single(kind) is not None:
            n += 1
        if fresh:
            self.server._set_client_id(cid)
        return n


# --------------------------------------------------------------------------
# executing operations and judging what they emit
# --------------------------------------------------------------------------

class _Any:
    def __repr__(self):
        return '<any>'


ANYV = _Any()


class Comp:
    """Expected completion blob holding these messages."""

    def __init__(self, msgs):
        self.msgs = msgs

    def __repr__(self):
        return 'Comp(%r)' % (self.msgs,)


def _scalars(msg):
    """(address, values without array markers) of a token form message."""
    v = sc.values(msg)
    return v[0], [x for x in v[1:] if not (isinstance(x, str) and x in '[]'
                                           and len(x) == 1)]


def _veq(a, e):
    if e is ANYV:
        return True
    if isinstance(e, Comp):
        if not isinstance(a, (bytes, bytearray)):
            return False
        try:
            inner = sc.flatten_packet(sc.decode_packet(a))
        except sc.OscDecodeError:
            return False
        return _msgs_eq([_scalars(m) for m in inner], e.msgs)
    if isinstance(e, bool):
        e = int(e)
    if isinstance(e, (int, float)):
        if isinstance(a, bool) or not isinstance(a, (int, float)):
            return False
        return abs(a - e) <= 1e-6 * max(1.0, abs(e))
    return a == e


def _msgs_eq(got, exp):
    if len(got) != len(exp):
        return False
    for (ga, gv), (ea, evs) in zip(got, exp):
        if ga != ea or len(gv) != len(evs):
            return False
        if not all(_veq(a, e) for a, e in zip(gv, evs)):
            return False
    return True


def _show(events):
    return [[ev['kind'], [sc.values(m) for m in ev['msgs']]]
            for ev in events]


class State:
    def __init__(self):
        self.nodes = []   # {'obj', 'cls', 'freed'}
        self.bufs = []    # {'objs', 'nums', 'frames', 'ch', 'alloc', 'freed', 'dead'}
        self.buses = []   # {'obj', 'rate', 'ch', 'index', 'freed'}

    def live_bus(self, rate, minch=1):
        for b in self.buses:
            if b['rate'] == rate and not b['freed'] and b['ch'] >= minch:
                return b
        return None

    def live_buf(self):
        for b in self.bufs:
            if not b['freed'] and not b['dead']:
                return b
        return None


class Exec:
    def __init__(self, env, cid):
        self.env = env
        self.cid = cid
        self.server = env.server
        self.st = State()
        self.viol = []
        self.dgid = self.server.default_group.node_id

    # -- bookkeeping -----------------------------------------------------------
    def v(self, clause, site, text, observed=None, key=None):
        self.viol.append({'clause': clause, 'site': site, 'text': text,
                          'observed': observed,
                          'key': key or 'C17.%s:%s' % (clause, site)})

    def allowed_nodes(self):
        ids = {0, self.dgid}
        for g in getattr(self.server, '_default_groups', []):
            ids.add(g.node_id)
        ids.update(n['obj'].node_id for n in self.st.nodes)
        return ids

    def allowed_bufs(self):
        return {n for b in self.st.bufs for n in b['nums']}

    def allowed_bus(self, rate):
        s = set()
        for b in self.st.buses:
            if b['rate'] == rate:
                s.update(range(b['index'], b['index'] + b['ch']))
        return s

    def ctl_scalars(self, x):
        env = self.env
        out = []

        def rec(v):
            if isinstance(v, (list, tuple)):
                for e in v:
                    rec(e)
            elif isinstance(v, dict):
                for k, val in v.items():
                    rec(k)
                    rec(val)
            elif isinstance(v, env.bus.Bus):
                out.append(v.index)
            elif isinstance(v, env.buffer.Buffer):
                out.append(v.bufnum)
            elif isinstance(v, env.node.Node):
                out.append(v.node_id)
            elif isinstance(v, bool):
                out.append(int(v))
            else:
                out.append(v)
        rec(x if x is not None else [])
        return out

    def build_args(self, variant):
        """Control argument lists. Returns (True, value) or (False, None) when
        the variant needs an object the state does not have."""
        st = self.st
        cb = st.live_bus('control')
        ab = st.live_bus('audio')
        bf = st.live_buf()
        cbo = cb['obj'] if cb else None
        abo = ab['obj'] if ab else None
        bfo = bf['objs'][0] if bf else None
        table = {
            'none': lambda: None,
            'empty': lambda: [],
            'pair': lambda: ['freq', 440],
            'pairs': lambda: ['freq', 440.5, 'amp', 0.1],
            'index': lambda: [0, 1.5, 2, 3],
            'list': lambda: ['freq', [440, 660.5]],
            'nested': lambda: ['freq', [1, [2, 3.5]], 'amp', 0.25],
            'tuple': lambda: ('freq', 440, 'amp', (0.5, 0.25)),
            'dict': lambda: {'freq': 440, 'amp': 0.5},
            'dictpos': lambda: [{'amp': 0.5}],
            'bus': lambda: cbo and ['out', cbo],
            'buslist': lambda: cbo and ['outs', [cbo, cbo]],
            'mapstr': lambda: cbo and ['freq', cbo.as_map()],
            'abusmap': lambda: abo and ['in', abo.as_map()],
            'buf': lambda: bfo and ['bufnum', bfo, 'rate', 1.0],
            'dictobj': lambda: (cbo and bfo) and {'out': cbo, 'bufnum': bfo},
        }
        val = table[variant]()
        if val is None and variant != 'none':
            return False, None
        return True, val

    def resolve_target(self, tgt):
        kind = tgt[0]
        if kind == 'srv':
            return True, self.server, self.dgid
        if kind == 'none':
            return True, None, self.dgid
        i = tgt[1]
        if kind == 'int':
            if i < 0:
                return True, self.dgid, self.dgid
            if i >= len(self.st.nodes):
                return False, None, None
            nid = self.st.nodes[i]['obj'].node_id
            return True, nid, nid
        if i >= len(self.st.nodes):
            return False, None, None
        o = self.st.nodes[i]['obj']
        return True, o, o.node_id

    # -- running one operation -------------------------------------------------
    def do(self, op):
        """Returns {'events', 'exc', 'viol', 'skipped'}."""
        env = self.env
        self.viol = []
        plan = getattr(self, 'op_' + op['k'])(op)
        if plan is None:
            return {'events': [], 'exc': None, 'viol': [], 'skipped': True}
        site, call, post = plan
        mark = len(env.events)
        exc = result = None
        try:
            result = call()
        except _Boom:
            raise
        except Exception as e:
            exc = e
        events = env.events[mark:]
        post(result, exc, events)
        flagged = bool(self.viol)
        nodes = bufs = None
        for ev in events:
            if ev['bad']:
                self.v('conform', site, ev['bad'], _show([ev]))
            for m in ev['msgs']:
                probs = sc.conforms(m)
                if probs:
                    self.v('conform', site, '%s emitted %r: %s'
                           % (site, sc.values(m), probs[0]), sc.values(m))
                    continue
                if flagged:
                    continue
                if nodes is None:
                    nodes, bufs = self.allowed_nodes(), self.allowed_bufs()
                    cbus = self.allowed_bus('control')
                    abus = self.allowed_bus('audio')
                for d in sc.ids(m):
                    ok = True
                    if d['kind'] == 'node':
                        ok = d['id'] in nodes or (
                            d['role'] == 'newnode' and d['id'] == -1)
                    elif d['kind'] == 'buf':
                        ok = d['id'] in bufs
                    else:
                        pool = cbus if d['kind'] == 'cbus' else abus
                        if 'map' in d['role'] and d['id'] == -1:
                            ok = True
                        else:
                            ok = all(i in pool for i in range(
                                d['id'], d['id'] + max(d['count'], 1)))
                    if not ok:
                        self.v('ids', site,
                               '%s emitted %r: %s id %d (count %d, argument '
                               '%d) was never obtained by this client'
                               % (site, sc.values(m), d['kind'], d['id'],
                                  d['count'], d['pos']), sc.values(m))
        return {'events': events, 'exc': exc, 'viol': self.viol,
                'skipped': False}

    def expect(self, site, clause, events, exp, exc=None, what=None):
        """exp: list of (kind, [(addr, [values])]) -- one entry per event."""
        if exc is not None:
            self.v(clause, site, '%s raised %s: %s'
                   % (what or site, type(exc).__name__, exc), repr(exc))
            return False
        ok = len(events) == len(exp)
        if ok:
            for ev, (kind, msgs) in zip(events, exp):
                if ev['bad'] or ev['kind'] != kind or not _msgs_eq(
                        [_scalars(m) for m in ev['msgs']], msgs):
                    ok = False
        if not ok:
            self.v(clause, site, '%s emitted %r, expected %r'
                   % (what or site, _show(events), exp), _show(events))
        return ok

    # -- nodes -----------------------------------------------------------------
    def op_new(self, op):
        env, st = self.env, self.st
        cname, ctor, act = op['cls'], op['ctor'], op['act']
        cls = getattr(env.node, cname)
        synth = cname == 'Synth'
        ok, target, tid = self.resolve_target(op['tgt'])
        if not ok:
            return None
        ok, args = self.build_args(op.get('args', 'none') if synth
                                   else 'none')
        if not ok:
            return None
        site = cname
        same = False
        if ctor == 'init':
            if synth:
                call = lambda: cls(DEFNAME, args, target, act)
            else:
                call = lambda: cls(target, act)
        elif ctor == 'conv':
            name = CONV[act]
            site = '%s.%s' % (cname, name)
            if synth:
                if name == 'replace' and op['tgt'][0] != 'node':
                    return None
                call = lambda: getattr(cls, name)(target, DEFNAME, args)
            else:
                call = lambda: getattr(cls, name)(target)
        elif ctor == 'replace_same':
            if not synth or op['tgt'][0] != 'node':
                return None
            site, act, same = 'Synth.replace', 'addReplace', True
            call = lambda: cls.replace(target, DEFNAME, args, True)
        elif ctor == 'paused':
            site = 'Synth.new_paused'
            call = lambda: cls.new_paused(DEFNAME, args, target, act)
        elif ctor == 'grain':
            site = 'Synth.grain'
            call = lambda: cls.grain(DEFNAME, args, target, act)
        else:
            raise ValueError(ctor)
        ctl = self.ctl_scalars(args) if synth else []

        def post(obj, exc, events):
            if exc is not None:
                self.v('create', site, '%s(target=%r, %r, args=%r) raised '
                       '%s: %s' % (site, op['tgt'], act, args,
                                   type(exc).__name__, exc), repr(exc))
                return
            if ctor == 'grain':
                nid = -1
            else:
                nid = getattr(obj, 'node_id', None)
                if isinstance(nid, bool) or not isinstance(nid, int):
                    self.v('create', site, '%s returned an object with '
                           'node_id %r' % (site, nid), nid)
                    return
                if not same and nid in self.allowed_nodes():
                    self.v('create', site, '%s got node id %d which is '
                           'already in use' % (site, nid), nid)
                st.nodes.append({'obj': obj, 'cls': cname, 'freed': False})
            if synth:
                m = ('/s_new', [DEFNAME, nid, ACTNUM[act], tid] + ctl)
            else:
                m = (CREATE_CMD[cname], [nid, ACTNUM[act], tid])
            if ctor == 'paused':
                exp = [('bundle', [m, ('/n_run', [nid, 0])])]
            else:
                exp = [('msg', [m])]
            self.expect(site, 'create', events, exp)
        return site, call, post

    def op_nm(self, op):
        env, st = self.env, self.st
        if op['n'] >= len(st.nodes):
            return None
        rec = st.nodes[op['n']]
        o = rec['obj']
        nid = o.node_id
        m, var = op['m'], op.get('v')
        site = 'Node.%s' % m
        cb = st.live_bus('control')
        cb2 = st.live_bus('control', 2)
        ab = st.live_bus('audio')
        bf = st.live_buf()
        kind = 'msg'
        clause = 'cmd'
        exp = None

        def other(j):
            return st.nodes[j]['obj'] if j is not None and j < len(
                st.nodes) else None

        if m == 'set':
            ok, args = self.build_args(var)
            if not ok:
                return None
            if var == 'dictpos':
                site = 'Node.set-dict'
            call = lambda: o.set(*args)
            exp = ('/n_set', [nid] + self.ctl_scalars(args))
        elif m == 'setn':
            if var == 'one':
                args, e = ('freq', 1.5), ['freq', 1, 1.5]
            elif var == 'list':
                args, e = ('freq', [1, 2.5, 3]), ['freq', 3, 1, 2.5, 3]
            elif var == 'multi':
                args = (0, [1.0, 2.0], 'amp', 0.5)
                e = [0, 2, 1.0, 2.0, 'amp', 1, 0.5]
            elif var == 'bus':
                if not cb:
                    return None
                args, e = ('out', cb['obj']), ['out', 1, cb['index']]
            elif var == 'objlist':
                if not (cb and bf):
                    return None
                args = ('x', [cb['obj'], bf['objs'][0]])
                e = ['x', 2, cb['index'], bf['nums'][0]]
            call = lambda: o.setn(*args)
            exp = ('/n_setn', [nid] + e)
        elif m in ('map', 'mapa'):
            b = cb if m == 'map' else ab
            if var == 'unmap':
                args, e = ('freq', -1), ['freq', -1]
            elif not b:
                return None
            elif var == 'bus':
                args, e = ('freq', b['obj']), ['freq', b['index']]
            elif var == 'int':
                i = b['index'] + b['ch'] - 1
                args, e = (1, i), [1, i]
            elif var == 'multi':
                args = ('freq', b['obj'], 2, -1)
                e = ['freq', b['index'], 2, -1]
            call = lambda: getattr(o, m)(*args)
            exp = ('/n_' + m, [nid] + e)
        elif m in ('mapn', 'mapan'):
            b = cb if m == 'mapn' else ab
            if not b:
                return None
            if var == 'bus':
                args, e = ('freq', b['obj']), ['freq', b['index'], b['ch']]
            elif var == 'int':
                args, e = (0, b['index']), [0, b['index'], 1]
            elif var == 'multi':
                args = ('freq', b['obj'], 3, b['index'])
                e = ['freq', b['index'], b['ch'], 3, b['index'], 1]
            call = lambda: getattr(o, m)(*args)
            exp = ('/n_' + m, [nid] + e)
        elif m == 'fill':
            args = {'one': ('freq', 2, 0.5),
                    'multi': ('freq', 2, 0.5, 'amp', 1, 3),
                    'index': (0, 3, 1)}[var]
            call = lambda: o.fill(*args)
            exp = ('/n_fill', [nid] + list(args))
        elif m == 'release':
            call = lambda: o.release(var)
            gate = 0 if var is None else (-1 if var <= 0 else -(var + 1))
            exp = ('/n_set', [nid, 'gate', gate])
            kind = 'bundle'
        elif m == 'run':
            call = lambda: o.run(var)
            exp = ('/n_run', [nid, int(var)])
        elif m == 'trace':
            call = o.trace
            exp = ('/n_trace', [nid])
        elif m == 'query':
            call = lambda: o.query(lambda *a: None)
            exp = ('/n_query', [nid])
        elif m == 'get':
            if rec['cls'] != 'Synth':
                return None
            site = 'Synth.get'
            call = lambda: o.get(var, lambda *a: None)
            exp = ('/s_get', [nid, var])
        elif m == 'getn':
            if rec['cls'] != 'Synth':
                return None
            site = 'Synth.getn'
            call = lambda: o.getn(var, 2, lambda *a: None)
            exp = ('/s_getn', [nid, var, 2])
        elif m in ('move_before', 'move_after'):
            t = other(var)
            if t is None:
                return None
            call = lambda: getattr(o, m)(t)
            exp = ('/n_before' if m == 'move_before' else '/n_after',
                   [nid, t.node_id])
        elif m in ('move_to_head', 'move_to_tail'):
            if var is None:
                t, gid = None, self.dgid
            else:
                t = other(var)
                if t is None or st.nodes[var]['cls'] == 'Synth':
                    return None
                gid = t.node_id
            call = lambda: getattr(o, m)(t)
            exp = ('/g_head' if m == 'move_to_head' else '/g_tail',
                   [gid, nid])
        elif m == 'free':
            clause = 'free'
            call = o.free
            exp = ('/n_free', [nid])
        elif m == 'free_noflag':
            site, clause = 'Node.free', 'free'
            call = lambda: o.free(False)
            exp = None
        elif m in ('free_all', 'deep_free'):
            if rec['cls'] == 'Synth':
                return None
            site = 'Group.%s' % m
            call = getattr(o, m)
            exp = ('/g_freeAll' if m == 'free_all' else '/g_deepFree', [nid])
        else:
            raise ValueError(m)

        def post(res, exc, events):
            if m in ('free', 'free_noflag'):
                rec['freed'] = True
            self.expect(site, clause, events,
                        [(kind, [exp])] if exp else [], exc,
                        '%s(%r) on node %d' % (site, var, nid))
        return site, call, post

    def op_srv(self, op):
        env, st, s = self.env, self.st, self.server
        m = op['m']
        site = 'Server.%s' % m
        if m == 'reorder':
            ids = [j for j in op['nodes'] if j < len(st.nodes)]
            ok, target, tid = self.resolve_target(op['tgt'])
            if not ids or not ok:
                return None
            objs = [st.nodes[j]['obj'] for j in ids]
            act = op['act']
            call = lambda: s.reorder(objs, target, act)
            exp = [('msg', [('/n_order', [ACTNUM[act], tid] +
                                    [x.node_id for x in objs])])]
        elif m == 'free_default_group':
            call = s.free_default_group
            exp = [('msg', [('/g_freeAll', [self.dgid])])]
        elif m == 'free_default_groups':
            site = 'Server.free_default_group'
            call = lambda: s.free_default_group(True)
            exp = None   # one /g_freeAll per default group: judged generically
        elif m == 'free_nodes':
            call = s.free_nodes
            exp = [('msg', [('/g_freeAll', [0])]), ('msg', [('/clearSched',
                                                             [])])]
        elif m == 'dump_osc':
            call = lambda: s.dump_osc(op['code'])
            exp = [('msg', [('/dumpOSC', [op['code']])])]
        elif m == 'status':
            site = 'NetAddr.send_status_msg'
            call = s.addr.send_status_msg
            exp = [('msg', [('/status', [])])]
        else:
            raise ValueError(m)

        def post(res, exc, events):
            if exp is None:
                if exc is not None:
                    self.v('cmd', site, '%s raised %r' % (site, exc))
                elif not events or any(
                        _scalars(x)[0] != '/g_freeAll'
                        for ev in events for x in ev['msgs']):
                    self.v('cmd', site, '%s emitted %r' % (site,
                                                           _show(events)))
                return
            self.expect(site, 'cmd', events, exp, exc)
        return site, call, post

    def op_sdef(self, op):
        sd = self.env.synthdef()
        site = 'SynthDef.send'

        def post(res, exc, events):
            if self.expect(site, 'cmd', events,
                           [('msg', [('/d_recv', [ANYV, 0])])], exc):
                blob = _scalars(events[0]['msgs'][0])[1][0]
                if not (isinstance(blob, bytes) and blob[:4] == b'SCgf'):
                    self.v('cmd', site, '/d_recv does not carry a synth '
                           'definition file (SCgf...)', repr(blob[:8]))
        return site, lambda: sd.send(self.server), post

    # -- buffers -----------------------------------------------------------------
    def _reg_bufs(self, objs, frames, ch, alloc):
        nums = [b.bufnum for b in objs]
        rec = {'objs': objs, 'nums': nums, 'frames': frames, 'ch': ch,
               'alloc': alloc, 'freed': 0, 'dead': False}
        self.st.bufs.append(rec)
        return rec

    def _check_bufnums(self, site, nums):
        bad = [n for n in nums if isinstance(n, bool) or not isinstance(
            n, int)]
        if bad or nums != list(range(nums[0], nums[0] + len(nums))):
            self.v('create', site, '%s produced buffer numbers %r'
                   % (site, nums), nums)
            return False
        live = {n for b in self.st.bufs if not b['freed'] and not b['dead']
                for n in b['nums']}
        if live & set(nums):
            self.v('create', site, '%s produced buffer numbers %r of which '
                   '%r are still in use' % (site, nums, sorted(
                       live & set(nums))), nums)
            return False
        return True

    def op_buf(self, op):
        env, s = self.env, self.server
        Buffer = env.buffer.Buffer
        var = op['v']
        frames, ch = op.get('frames', 8), op.get('ch', 1)
        site = 'Buffer'
        if var == 'plain':
            call = lambda: Buffer(frames, ch, s)
        elif var == 'compfn':
            call = lambda: Buffer(frames, ch, s, completion_msg=lambda b: [
                '/b_query', b.bufnum])
        elif var == 'complist':
            call = lambda: Buffer(frames, ch, s,
                                  completion_msg=['/sync', 7])
        elif var == 'noalloc':
            call = lambda: Buffer(frames, ch, s, alloc=False)
        elif var == 'cue':
            site = 'Buffer.new_cue'
            call = lambda: Buffer.new_cue(PATH, 3, frames, ch, s)
        elif var == 'read':
            site = 'Buffer.new_read'
            call = lambda: Buffer.new_read(PATH, 0, -1, s)
        else:
            raise ValueError(var)

        def post(b, exc, events):
            if exc is not None:
                self.v('create', site, '%s raised %s: %s'
                       % (site, type(exc).__name__, exc), repr(exc))
                return
            if not self._check_bufnums(site, [b.bufnum]):
                return
            n = b.bufnum
            self._reg_bufs([b], None if var == 'read' else frames, ch,
                           var != 'noalloc')
            if var == 'plain':
                exp = [('msg', [('/b_alloc', [n, frames, ch, 0])])]
            elif var == 'compfn':
                exp = [('msg', [('/b_alloc', [n, frames, ch, Comp(
                    [('/b_query', [n])])])])]
            elif var == 'complist':
                exp = [('msg', [('/b_alloc', [n, frames, ch, Comp(
                    [('/sync', [7])])])])]
            elif var == 'noalloc':
                exp = []
            elif var == 'cue':
                exp = [('msg', [('/b_alloc', [n, frames, ch, Comp(
                    [('/b_read', [n, PATH, 3, frames, 0, 1, 0])])])])]
            else:
                exp = [('msg', [('/b_allocRead', [n, PATH, 0, -1, Comp(
                    [('/b_query', [n])])])])]
            self.expect(site, 'create', events, exp)
        return site, call, post

    def op_bufc(self, op):
        env, s = self.env, self.server
        Buffer = env.buffer.Buffer
        n, comp = op['n'], op.get('comp', False)
        frames, ch = 4, 2
        site = 'Buffer.new_consecutive'
        fn = (lambda b, i: ['/b_zero', b.bufnum]) if comp else None
        call = lambda: Buffer.new_consecutive(n, frames, ch, s,
                                              completion_msg=fn)

        def post(bs, exc, events):
            if exc is not None:
                self.v('create', site, '%s(%d) raised %s: %s'
                       % (site, n, type(exc).__name__, exc), repr(exc))
                return
            nums = [b.bufnum for b in bs]
            if len(nums) != n or not self._check_bufnums(site, nums):
                self.v('create', site, '%s(%d) returned buffers %r'
                       % (site, n, nums), nums)
                return
            self._reg_bufs(list(bs), frames, ch, True)
            exp = [('msg', [('/b_alloc', [
                k, frames, ch, Comp([('/b_zero', [k])]) if comp else 0])])
                for k in nums]
            self.expect(site, 'create', events, exp)
        return site, call, post

    def op_bm(self, op):
        st = self.st
        if op['b'] >= len(st.bufs):
            return None
        rec = st.bufs[op['b']]
        if rec['dead']:
            return None
        j = op.get('j', 0) % len(rec['objs'])
        b = rec['objs'][j]
        n = rec['nums'][j]
        m, var = op['m'], op.get('v')
        site = 'Buffer.%s' % m
        freed = rec['freed'] > 0
        guarded = m in ('zero', 'set', 'setn', 'fill', 'get', 'getn', 'query',
                        'sine1', 'sine2', 'sine3', 'cheby', 'normalize',
                        'gen', 'copy_data', 'write', 'close')
        if freed and not guarded:
            return None   # use after free of an unguarded method: unspecified
        if rec['frames'] is None and m in ('alloc', 'cue'):
            return None
        clause = 'cmd'
        nop = lambda *a: None
        if m == 'alloc':
            call = b.alloc
            exp = ('/b_alloc', [n, rec['frames'], rec['ch'], 0])
        elif m == 'zero':
            if var == 'comp':
                call = lambda: b.zero(lambda x: ['/b_query', x.bufnum])
                exp = ('/b_zero', [n, Comp([('/b_query', [n])])])
            else:
                call = b.zero
                exp = ('/b_zero', [n, 0])
        elif m == 'set':
            args = (0, 0.5) if var == 'one' else (0, 0.5, 1, 2, 3, -1.5)
            call = lambda: b.set(*args)
            exp = ('/b_set', [n] + list(args))
        elif m == 'setn':
            if var == 'one':
                args, e = (0, [1, 2.5]), [0, 2, 1, 2.5]
            else:
                args, e = (0, [1.0, 2.0], 3, 4.5), [0, 2, 1.0, 2.0, 3, 1, 4.5]
            call = lambda: b.setn(*args)
            exp = ('/b_setn', [n] + e)
        elif m == 'fill':
            vals = [0.5] if var == 'one' else [0.5, 4, 2, 1]
            call = lambda: b.fill(0, 4, vals)
            exp = ('/b_fill', [n, 0, 4] + vals)
        elif m == 'get':
            call = lambda: b.get(1, nop)
            exp = ('/b_get', [n, 1])
        elif m == 'getn':
            call = lambda: b.getn(1, 3, nop)
            exp = ('/b_getn', [n, 1, 3])
        elif m == 'query':
            call = lambda: b.query(nop)
            exp = ('/b_query', [n])
        elif m == 'update_info':
            call = lambda: b.update_info(nop)
            exp = ('/b_query', [n])
        elif m == 'sine1':
            call = lambda: b.sine1([1, 0.5])
            exp = ('/b_gen', [n, 'sine1', 7, 1, 0.5])
        elif m == 'sine2':
            call = lambda: b.sine2([1, 2], [1, 0.5], False, True, False)
            exp = ('/b_gen', [n, 'sine2', 2, 1, 1, 2, 0.5])
        elif m == 'sine3':
            call = lambda: b.sine3([1, 2], [1, 0.5], [0, 0.25])
            exp = ('/b_gen', [n, 'sine3', 7, 1, 1, 0, 2, 0.5, 0.25])
        elif m == 'cheby':
            call = lambda: b.cheby([1, 0.5])
            exp = ('/b_gen', [n, 'cheby', 7, 1, 0.5])
        elif m == 'normalize':
            call = lambda: b.normalize(0.5, var == 'w')
            exp = ('/b_gen', [n, 'wnormalize' if var == 'w' else 'normalize',
                              0.5])
        elif m == 'gen':
            call = lambda: b.gen('sine1', [1, 2])
            exp = ('/b_gen', [n, 'sine1', 7, 1, 2])
        elif m == 'copy_data':
            call = lambda: b.copy_data(b, 1, 0, -1)
            exp = ('/b_gen', [n, 'copy', 1, n, 0, -1])
        elif m == 'alloc_read':
            call = lambda: b.alloc_read(PATH, 2, 5)
            exp = ('/b_allocRead', [n, PATH, 2, 5, 0])
        elif m == 'alloc_read_channel':
            call = lambda: b.alloc_read_channel(PATH, 0, -1, [0, 1])
            exp = ('/b_allocReadChannel', [n, PATH, 0, -1, 0, 1, 0])
        elif m == 'read':
            call = lambda: b.read(PATH, 1, 4, 2, True)
            exp = ('/b_read', [n, PATH, 1, 4, 2, 1, Comp(
                [('/b_query', [n])])])
        elif m == 'read_channel':
            call = lambda: b.read_channel(PATH, 1, 4, 2, False, [1])
            exp = ('/b_readChannel', [n, PATH, 1, 4, 2, 0, 1, Comp(
                [('/b_query', [n])])])
        elif m == 'cue':
            # /b_read bufnum path fileStart numFrames bufStart leaveOpen:
            # cue = fill the whole buffer from file frame 3 and leave the
            # file open for DiskIn (cf. Buffer.new_cue).
            clause = 'order'
            call = lambda: b.cue(PATH, 3)
            exp = ('/b_read', [n, PATH, 3, rec['frames'], 0, 1, 0])
        elif m == 'write':
            call = lambda: b.write(PATH, 'wav', 'float', 6, 1, True)
            exp = ('/b_write', [n, PATH, 'wav', 'float', 6, 1, 1, 0])
        elif m == 'close':
            call = b.close
            exp = ('/b_close', [n, 0])
        else:
            raise ValueError(m)

        def post(res, exc, events):
            if freed:
                # guarded methods refuse a freed buffer; whatever happens, no
                # command may go out for it
                if events:
                    self.v('cmd', site + '-after-free', '%s on a freed '
                           'buffer emitted %r' % (site, _show(events)),
                           _show(events))
                return
            self.expect(site, clause, events, [('msg', [exp])], exc)
        return site, call, post

    def op_bfree(self, op):
        st = self.st
        if op['b'] >= len(st.bufs):
            return None
        rec = st.bufs[op['b']]
        if rec['dead']:
            return None
        comp = op.get('comp', False)
        first = rec['freed'] == 0
        site = 'Buffer.free' if first else 'Buffer.free-twice'
        objs, nums = rec['objs'], rec['nums']

        def call():
            for b in objs:   # a consecutive group is freed as a whole
                if comp:
                    # the completion function is given the buffer as it is being freed
                    b.free(lambda x: ['/b_query', x.bufnum])
                else:
                    b.free()

        def post(res, exc, events):
            rec['freed'] += 1
            if first:
                self.expect(site, 'free', events,
                            [('msg', [('/b_free', [k, Comp([('/b_query', [k])]) if comp else 0])])
                             for k in nums],
                            exc, 'freeing buffer(s) %r' % (nums,))
            else:
                frees = [sc.values(m) for ev in events for m in ev['msgs']
                         if m[0] == '/b_free']
                if frees:
                    self.v('free', site, 'free() of the already freed '
                           'buffer(s) %r emitted %r: a free command for a '
                           'buffer this object does not own'
                           % (nums, frees), frees)
        return site, call, post

    def op_bfreeall(self, op):
        st, s = self.st, self.server
        site = 'Buffer.free_all'
        live = sorted(n for b in st.bufs if not b['freed'] and not b['dead']
                      for n in b['nums'])
        call = lambda: self.env.buffer.Buffer.free_all(s)

        def post(res, exc, events):
            for b in st.bufs:
                if not b['freed']:
                    b['dead'] = True
            if exc is not None:
                self.v('free', site, 'Buffer.free_all raised %r' % (exc,))
                return
            got = [_scalars(m) for ev in events for m in ev['msgs']]
            frees = sorted(v[0] for a, v in got if a == '/b_free' and v)
            other = [a for a, v in got if a != '/b_free']
            if len(events) > 1 or other:
                self.v('free', site, 'Buffer.free_all emitted %r'
                       % (_show(events),), _show(events))
            elif frees != live:
                missing = sorted(set(live) - set(frees))
                extra = [x for x in frees if x not in live or
                         frees.count(x) > 1]
                key = None
                if missing and not extra:
                    key = 'C17.free:free-all-buffers-range'
                self.v('free', site, 'Buffer.free_all with buffers %r '
                       'allocated emitted /b_free for %r (missing %r, '
                       'unexpected %r)' % (live, frees, missing, extra),
                       _show(events), key)
        return site, call, post

    # -- buses -------------------------------------------------------------------
    def op_bus(self, op):
        env, s = self.env, self.server
        rate, ch = op['rate'], op['ch']
        cls = env.bus.ControlBus if rate == 'control' else env.bus.AudioBus
        site = cls.__name__

        def post(b, exc, events):
            if exc is not None:
                self.v('create', site, '%s(%d) raised %r' % (site, ch, exc))
                return
            idx = b.index
            if isinstance(idx, bool) or not isinstance(idx, int):
                self.v('create', site, '%s(%d).index = %r' % (site, ch, idx))
                return
            live = {i for x in self.st.buses
                    if x['rate'] == rate and not x['freed']
                    for i in range(x['index'], x['index'] + x['ch'])}
            if live & set(range(idx, idx + ch)):
                self.v('create', site, '%s(%d) got indices [%d, %d) which '
                       'overlap a live bus' % (site, ch, idx, idx + ch))
            self.st.buses.append({'obj': b, 'rate': rate, 'ch': ch,
                                  'index': idx, 'freed': False})
            self.expect(site, 'create', events, [])
        return site, lambda: cls(ch, s), post

    def op_busm(self, op):
        st = self.st
        if op['b'] >= len(st.buses):
            return None
        rec = st.buses[op['b']]
        if rec['rate'] != 'control':
            return None
        b, idx, ch = rec['obj'], rec['index'], rec['ch']
        m = op['m']
        site = 'ControlBus.%s' % m
        vals = [0.5, 2, -1.25][:ch]
        nop = lambda *a: None
        if m == 'set':
            call = lambda: b.set(*vals)
            exp = ('/c_set', [x for i, v in enumerate(vals)
                              for x in (idx + i, v)])
        elif m == 'setn':
            call = lambda: b.setn(vals)
            exp = ('/c_setn', [idx, len(vals)] + vals)
        elif m == 'fill':
            call = lambda: b.fill(0.25, ch)
            exp = ('/c_fill', [idx, ch, 0.25])
        elif m == 'clear':
            call = b.clear
            exp = ('/c_fill', [idx, ch, 0])
        elif m == 'set_at':
            call = lambda: b.set_at(ch - 1, 0.75)
            exp = ('/c_set', [idx + ch - 1, 0.75])
        elif m == 'setn_at':
            call = lambda: b.setn_at(ch - 1, [3])
            exp = ('/c_setn', [idx + ch - 1, 1, 3])
        elif m == 'set_pairs':
            call = lambda: b.set_pairs(0, 0.125, ch - 1, 4)
            exp = ('/c_set', [idx, 0.125, idx + ch - 1, 4])
        elif m == 'get':
            call = lambda: b.get(nop)
            exp = ('/c_get', [idx]) if ch == 1 else ('/c_getn', [idx, ch])
        elif m == 'getn':
            call = lambda: b.getn(ch, nop)
            exp = ('/c_getn', [idx, ch])
        else:
            raise ValueError(m)

        def post(res, exc, events):
            if rec['freed']:
                if events:
                    self.v('cmd', site + '-after-free', '%s on a freed bus '
                           'emitted %r' % (site, _show(events)),
                           _show(events))
                return
            self.expect(site, 'cmd', events, [('msg', [exp])], exc)
        return site, call, post

    def op_busfree(self, op):
        st = self.st
        if op['b'] >= len(st.buses):
            return None
        rec = st.buses[op['b']]
        site = '%sBus.free' % rec['rate'].capitalize()

        def post(res, exc, events):
            rec['freed'] = True
            self.expect(site, 'free', events, [], exc)
        return site, rec['obj'].free, post


# --------------------------------------------------------------------------
# histories: running, bind() differential, closing and probe
# --------------------------------------------------------------------------

NO_BLOCK = (('srv', 'status'), ('srv', 'free_nodes'))


def _is_op(it):
    return 'k' in it


def _has_block(items):
    return any(not _is_op(it) for it in items)


def _canon_events(events):
    return [(ev['kind'], [sc.values(m) for m in ev['msgs']], ev['bad'])
            for ev in events]


def _flat_msgs(events):
    return [sc.values(m) for ev in events for m in ev['msgs']]


def run_history(env, cid, items, bound):
    """Returns (log, violations, exec). log parallels items (+ closing ops)."""
    env.reset(cid)
    ex = Exec(env, cid)
    viol = []

    def run_items(items, log, depth, path):
        for idx, it in enumerate(items):
            here = path + [idx]
            if _is_op(it):
                r = ex.do(it)
                log.append(r)
                if not bound:
                    for v in r['viol']:
                        viol.append(dict(v, at=here, op=it))
                continue
            entry = {'block': it, 'sub': [], 'events': [], 'inside': 0,
                     'exit_exc': None}
            log.append(entry)
            if not bound:
                run_items(it['items'], entry['sub'], depth + 1, here)
                continue
            mark = len(env.events)
            try:
                with env.server.bind():
                    run_items(it['items'], entry['sub'], depth + 1, here)
                    entry['inside'] = len(env.events) - mark
                    if it.get('raise'):
                        raise _Boom()
            except _Boom:
                if depth > 0 and not it.get('catch', True):
                    raise
            except Exception as e:
                if depth > 0:
                    raise
                entry['exit_exc'] = '%s: %s' % (type(e).__name__, e)
            entry['events'] = env.events[mark:]

    log = []
    run_items(items, log, 0, [])
    # closing: free whatever is still alive, then free_all
    closing = []
    st = ex.st
    for i, n in enumerate(st.nodes):
        if not n['freed']:
            closing.append({'k': 'nm', 'n': i, 'm': 'free'})
    for i, b in enumerate(st.bufs):
        if not b['freed'] and not b['dead']:
            closing.append({'k': 'bfree', 'b': i})
    for i, b in enumerate(st.buses):
        if not b['freed']:
            closing.append({'k': 'busfree', 'b': i})
    closing.append({'k': 'bfreeall'})
    run_items(closing, log, 0, ['closing'])
    if not bound:
        for kind in ('buffer', 'control', 'audio'):
            want = env.part[cid][kind]
            got = env.count_free(cid, kind)
            if got != want:
                viol.append({
                    'clause': 'free', 'site': kind,
                    'key': 'C17.free:%s-ids-not-returned' % kind,
                    'text': 'after freeing every object the %s allocator of '
                            'client %d hands out %d single indices, a fresh '
                            'one %d' % (kind, cid, got, want),
                    'observed': got, 'at': ['probe'], 'op': None})
    return log, viol, ex


def _block_contents(it, entry):
    """Messages a block must deliver, from the UNBOUND run: (msgs, raised)."""
    out = []
    for sub, lg in zip(it['items'], entry['sub']):
        if _is_op(sub):
            out.extend(_flat_msgs(lg['events']))
        else:
            m, raised = _block_contents(sub, lg)
            if raised:
                if sub.get('catch', True):
                    continue
                return [], True
            out.extend(m)
    if it.get('raise'):
        return [], True
    return out, False


def compare_bound(items, loga, logb):
    """Bind clause: logb (with bind) against loga (same history without)."""
    viol = []

    def v(key, text, observed, at):
        viol.append({'clause': 'bind', 'site': key, 'key': 'C17.bind:' + key,
                     'text': text, 'observed': observed, 'at': at,
                     'op': None})
    for idx, (la, lb) in enumerate(zip(loga, logb)):
        it = items[idx] if idx < len(items) else None
        if 'block' not in la:
            a, b = _canon_events(la['events']), _canon_events(lb['events'])
            if a != b:
                v('outside-block-differs',
                  'operation #%d outside any bind() block emitted %r, '
                  'without the earlier bind() blocks it emits %r'
                  % (idx, b, a), b, [idx])
            continue
        msgs, raised = _block_contents(it, la)
        evs = lb['events']
        if lb['exit_exc']:
            v('exit-raised', 'leaving the bind() block #%d raised %s'
              % (idx, lb['exit_exc']), lb['exit_exc'], [idx])
            continue
        if lb['inside']:
            v('sent-inside-block', '%d packet(s) reached the wire while the '
              'bind() block #%d was still running: %r'
              % (lb['inside'], idx, _show(evs[:lb['inside']])),
              _show(evs), [idx])
            continue
        if raised:
            if evs:
                v('sent-despite-raise', 'bind() block #%d raised but %r '
                  'reached the wire' % (idx, _show(evs)), _show(evs), [idx])
            continue
        if not msgs:
            if evs and not (len(evs) == 1 and evs[0]['kind'] == 'bundle'
                            and not evs[0]['msgs']):
                v('not-one-bundle', 'bind() block #%d issued no command but '
                  '%r reached the wire' % (idx, _show(evs)), _show(evs),
                  [idx])
            continue
        if len(evs) != 1 or evs[0]['kind'] != 'bundle' or evs[0]['bad']:
            v('not-one-bundle', 'bind() block #%d issued %d command(s); at '
              'exit %r reached the wire instead of one bundle'
              % (idx, len(msgs), _show(evs)), _show(evs), [idx])
            continue
        got = _flat_msgs(evs)
        if got != msgs:
            v('order-or-content', 'bind() block #%d delivered %r; issued '
              '(same history without bind) %r' % (idx, got, msgs), got,
              [idx])
    return viol


def check_history(env, case):
    """case: {'cid', 'items'} -> (violations, number of events)."""
    items, cid = case['items'], case['cid']
    loga, viol, _ = run_history(env, cid, items, False)
    nev = sum(len(l['events']) for l in loga if 'block' not in l)
    if _has_block(items):
        logb, _, _ = run_history(env, cid, items, True)
        viol = viol + compare_bound(items, loga, logb)
    return viol, nev


# --------------------------------------------------------------------------
# generating histories
# --------------------------------------------------------------------------

SYNTH_ARGS = ['none', 'empty', 'pair', 'pairs', 'index', 'list', 'nested',
              'tuple', 'dict', 'bus', 'buslist', 'mapstr', 'abusmap', 'buf',
              'dictobj']
# 'dictpos' (a dict passed positionally to Node.set) is left out: the set()
# docstring specifies alternating controls and values, so a positional dict is
# outside the documented input domain (dict arguments are exercised through the
# Synth constructor: 'dict', 'dictobj').
SET_ARGS = ['empty', 'pair', 'pairs', 'index', 'list', 'nested', 'tuple',
            'bus', 'buslist', 'mapstr', 'abusmap', 'buf']
FIXTURE = [
    {'k': 'new', 'cls': 'Group', 'ctor': 'init', 'act': 'addToHead',
     'tgt': ['none']},
    {'k': 'new', 'cls': 'Synth', 'ctor': 'init', 'act': 'addToTail',
     'tgt': ['node', 0], 'args': 'pair'},
    {'k': 'bus', 'rate': 'control', 'ch': 2},
    {'k': 'bus', 'rate': 'audio', 'ch': 2},
    {'k': 'buf', 'v': 'plain'},
    {'k': 'bufc', 'n': 2},
]


class Mirror:
    """What the generator needs to know about the state a history builds."""

    def __init__(self):
        self.nodes = []   # class names
        self.bufs = []    # {'n', 'freed', 'dead', 'frames'}
        self.buses = []   # {'rate', 'ch', 'freed'}

    def apply(self, op):
        k = op['k']
        if k == 'new':
            if op['ctor'] == 'grain':
                return
            if op['tgt'][0] in ('node', 'int') and op['tgt'][1] >= len(
                    self.nodes):
                return
            if op['ctor'] in ('replace_same',) or (
                    op['ctor'] == 'conv' and op['cls'] == 'Synth'
                    and op['act'] == 'addReplace'):
                if op['tgt'][0] != 'node':
                    return
            self.nodes.append(op['cls'])
        elif k == 'buf':
            self.bufs.append({'n': 1, 'freed': 0, 'dead': False,
                              'frames': op['v'] != 'read'})
        elif k == 'bufc':
            self.bufs.append({'n': op['n'], 'freed': 0, 'dead': False,
                              'frames': True})
        elif k == 'bfree':
            if op['b'] < len(self.bufs) and not self.bufs[op['b']]['dead']:
                self.bufs[op['b']]['freed'] += 1
        elif k == 'bfreeall':
            for b in self.bufs:
                if not b['freed']:
                    b['dead'] = True
        elif k == 'bus':
            self.buses.append({'rate': op['rate'], 'ch': op['ch'],
                               'freed': False})
        elif k == 'busfree':
            if op['b'] < len(self.buses):
                self.buses[op['b']]['freed'] = True

    def _sel(self, seq, preds):
        out = []
        for p in preds:
            for i, x in enumerate(seq):
                if p(x):
                    if i not in out:
                        out.append(i)
                    break
        if seq and len(seq) - 1 not in out:
            out.append(len(seq) - 1)
        return out

    def node_sel(self):
        return self._sel(self.nodes, [lambda c: c != 'Synth',
                                      lambda c: c == 'Synth'])

    def first_group(self):
        for i, c in enumerate(self.nodes):
            if c != 'Synth':
                return i
        return None

    def buf_sel(self):
        return [i for i in self._sel(self.bufs, [
            lambda b: b['n'] == 1 and not b['dead'],
            lambda b: b['n'] > 1 and not b['dead']])
            if not self.bufs[i]['dead']]

    def bus_sel(self):
        return self._sel(self.buses, [lambda b: b['rate'] == 'control',
                                      lambda b: b['rate'] == 'audio'])

    def has_live(self, rate):
        return any(b['rate'] == rate and not b['freed'] for b in self.buses)

    def has_live_buf(self):
        return any(not b['freed'] and not b['dead'] for b in self.bufs)

    def args_ok(self, var):
        if var in ('bus', 'buslist', 'mapstr'):
            return self.has_live('control')
        if var == 'abusmap':
            return self.has_live('audio')
        if var == 'buf':
            return self.has_live_buf()
        if var == 'dictobj':
            return self.has_live('control') and self.has_live_buf()
        return True


def gen_ops(mi, full):
    """Applicable operations in the state described by ``mi``."""
    ops = []
    nsel = mi.node_sel()
    fg = mi.first_group()
    tgts = [['srv'], ['none'], ['int', -1]]
    tgts += [['node', i] for i in nsel] + [['int', i] for i in nsel]
    sargs = [a for a in SYNTH_ARGS if mi.args_ok(a)]
    k = 0
    if full:
        for cls in ('Synth', 'Group', 'ParGroup'):
            for act in ACTIONS:
                for tgt in tgts:
                    for ctor in ('init', 'conv'):
                        op = {'k': 'new', 'cls': cls, 'ctor': ctor,
                              'act': act, 'tgt': tgt}
                        if cls == 'Synth':
                            if ctor == 'conv' and act == 'addReplace' \
                                    and tgt[0] != 'node':
                                continue
                            op['args'] = sargs[k % len(sargs)]
                            k += 1
                        ops.append(op)
        for a in sargs:
            ops.append({'k': 'new', 'cls': 'Synth', 'ctor': 'init',
                        'act': 'addToHead', 'tgt': ['none'], 'args': a})
        for ctor in ('paused', 'grain'):
            for act in ACTIONS:
                for tgt in [['none'], ['srv']] + [['node', i] for i in nsel]:
                    ops.append({'k': 'new', 'cls': 'Synth', 'ctor': ctor,
                                'act': act, 'tgt': tgt,
                                'args': sargs[k % len(sargs)]})
                    k += 1
        for i in nsel:
            ops.append({'k': 'new', 'cls': 'Synth', 'ctor': 'replace_same',
                        'act': 'addReplace', 'tgt': ['node', i],
                        'args': 'pair'})
    else:
        first = nsel[0] if nsel else None
        for cls in ('Synth', 'Group', 'ParGroup'):
            ops.append({'k': 'new', 'cls': cls, 'ctor': 'init',
                        'act': 'addToHead', 'tgt': ['none'], 'args': 'list'})
            if first is not None:
                ops.append({'k': 'new', 'cls': cls, 'ctor': 'conv',
                            'act': 'addAfter', 'tgt': ['node', first],
                            'args': 'dict'})
        ops.append({'k': 'new', 'cls': 'Synth', 'ctor': 'paused',
                    'act': 'addToTail', 'tgt': ['srv'], 'args': 'pairs'})
    # node methods
    for i in (nsel if full else nsel[:2]):
        synth = mi.nodes[i] == 'Synth'

        def nm(m, v=None):
            ops.append({'k': 'nm', 'n': i, 'm': m, 'v': v})
        for a in (SET_ARGS if full else ['pairs', 'list']):
            if mi.args_ok(a):
                nm('set', a)
        for a in (('one', 'list', 'multi', 'bus', 'objlist') if full
                  else ('multi',)):
            if a == 'bus' and not mi.has_live('control'):
                continue
            if a == 'objlist' and not (mi.has_live('control')
                                       and mi.has_live_buf()):
                continue
            nm('setn', a)
        for m, rate in (('map', 'control'), ('mapa', 'audio')):
            nm(m, 'unmap')
            if mi.has_live(rate):
                for a in (('bus', 'int', 'multi') if full else ('bus',)):
                    nm(m, a)
        for m, rate in (('mapn', 'control'), ('mapan', 'audio')):
            if mi.has_live(rate):
                for a in (('bus', 'int', 'multi') if full else ('bus',)):
                    nm(m, a)
        for a in (('one', 'multi', 'index') if full else ('multi',)):
            nm('fill', a)
        for a in ((None, 1.5, 0, -2) if full else (None, 1.5)):
            nm('release', a)
        for a in ((True, False) if full else (False,)):
            nm('run', a)
        nm('trace')
        nm('query')
        if synth:
            for a in (('freq', 0) if full else ('freq',)):
                nm('get', a)
                nm('getn', a)
        for j in (nsel[:2] if full else nsel[:1]):
            nm('move_before', j)
            nm('move_after', j)
        for g in ((None, fg) if fg is not None and full else (None,)):
            nm('move_to_head', g)
            nm('move_to_tail', g)
        nm('free')
        if full:
            nm('free_noflag')
        if not synth:
            nm('free_all')
            nm('deep_free')
    # server helpers
    if nsel:
        ops.append({'k': 'srv', 'm': 'reorder', 'nodes': nsel[:2],
                    'tgt': ['node', nsel[0]], 'act': 'addAfter'})
        if full:
            ops.append({'k': 'srv', 'm': 'reorder', 'nodes': nsel,
                        'tgt': ['none'], 'act': 'addToHead'})
    ops.append({'k': 'srv', 'm': 'free_default_group'})
    ops.append({'k': 'srv', 'm': 'dump_osc', 'code': 1})
    ops.append({'k': 'srv', 'm': 'status'})
    ops.append({'k': 'sdef'})
    if full:
        ops.append({'k': 'srv', 'm': 'free_default_groups'})
        ops.append({'k': 'srv', 'm': 'dump_osc', 'code': 0})
        ops.append({'k': 'srv', 'm': 'free_nodes'})
    # buffers
    for v in (('plain', 'compfn', 'complist', 'noalloc', 'cue', 'read')
              if full else ('plain', 'compfn')):
        ops.append({'k': 'buf', 'v': v})
    for n, c in (((2, False), (3, True), (2, True)) if full
                 else ((2, True),)):
        ops.append({'k': 'bufc', 'n': n, 'comp': c})
    for i in mi.buf_sel():
        b = mi.bufs[i]

        def bm(m, v=None, j=0):
            ops.append({'k': 'bm', 'b': i, 'm': m, 'v': v, 'j': j})
        j = b['n'] - 1
        for m, vs in (('zero', (None, 'comp')), ('set', ('one', 'more')),
                      ('setn', ('one', 'more')), ('fill', ('one', 'more'))):
            for v in (vs if full else vs[:1]):
                bm(m, v, j)
        bm('get'), bm('getn', None, j), bm('query')
        if full:
            for m in ('sine1', 'sine2', 'sine3', 'cheby', 'gen', 'copy_data',
                      'write', 'close'):
                bm(m, None, j)
            bm('normalize', 'w'), bm('normalize', None)
        if not b['freed']:
            bm('update_info')
            if b['frames']:
                bm('alloc')
            if full:
                for m in ('alloc_read', 'alloc_read_channel', 'read',
                          'read_channel'):
                    bm(m, None, j)
                if b['frames']:
                    bm('cue', None, j)
        ops.append({'k': 'bfree', 'b': i})
        if full:
            ops.append({'k': 'bfree', 'b': i, 'comp': True})
    ops.append({'k': 'bfreeall'})
    # buses
    for rate in ('control', 'audio'):
        for ch in ((1, 2, 3) if full else (2,)):
            ops.append({'k': 'bus', 'rate': rate, 'ch': ch})
    for i in mi.bus_sel():
        if mi.buses[i]['rate'] == 'control':
            for m in (('set', 'setn', 'fill', 'clear', 'set_at', 'setn_at',
                       'set_pairs', 'get', 'getn') if full
                      else ('set', 'setn', 'fill')):
                ops.append({'k': 'busm', 'b': i, 'm': m})
        ops.append({'k': 'busfree', 'b': i})
    return ops


def _group_of(op):
    return (op['k'], op.get('m') or op.get('ctor') or op.get('v'))


def _blockable(op):
    return (op['k'], op.get('m')) not in NO_BLOCK


def mirror_after(items):
    mi = Mirror()

    def rec(items):
        for it in items:
            if _is_op(it):
                mi.apply(it)
            else:
                rec(it['items'])
    rec(items)
    return mi


def bind_variants_small(ops):
    """All bind structures over a short operation list (len <= 2)."""
    out = []
    n = len(ops)
    for i in range(n + 1):
        for j in range(i, n + 1):
            seg = ops[i:j]
            if not all(_blockable(o) for o in seg):
                continue
            for r in (False, True):
                out.append(ops[:i] + [{'items': seg, 'raise': r}] + ops[j:])
    if n == 2 and all(_blockable(o) for o in ops):
        a, b = ops
        for r in (False, True):
            out.append([{'items': [a, {'items': [b], 'raise': True,
                                       'catch': True}], 'raise': r}])
            out.append([{'items': [{'items': [a], 'raise': r, 'catch': True},
                                   b], 'raise': False}])
        out.append([{'items': [a, {'items': [b], 'raise': True,
                                   'catch': False}], 'raise': False}])
        out.append([{'items': [a, {'items': [b], 'raise': False}],
                     'raise': False}])
    return out


def random_bind(ops, rng):
    n = len(ops)
    i = rng.randrange(n + 1)
    j = rng.randrange(i, n + 1)
    seg = list(ops[i:j])
    if not all(_blockable(o) for o in seg):
        return None
    if len(seg) >= 2 and rng.random() < 0.4:
        a = rng.randrange(len(seg))
        b = rng.randrange(a, len(seg) + 1)
        inner_raise = rng.random() < 0.5
        catch = True
        if inner_raise and b == len(seg) and rng.random() < 0.5:
            catch = False
        seg = seg[:a] + [{'items': seg[a:b], 'raise': inner_raise,
                          'catch': catch}] + seg[b:]
    block = {'items': seg, 'raise': rng.random() < 0.4}
    return list(ops[:i]) + [block] + list(ops[j:])


def random_history(rng, length, fixture):
    items = [dict(o) for o in fixture]
    mi = mirror_after(items)
    ops = []
    for _ in range(length):
        cand = [o for o in gen_ops(mi, True)
                if (o['k'], o.get('m')) != ('srv', 'free_nodes')]
        groups = {}
        for o in cand:
            groups.setdefault(_group_of(o), []).append(o)
        g = rng.choice(sorted(groups, key=repr))
        op = rng.choice(groups[g])
        ops.append(op)
        mi.apply(op)
    return items, ops


# --------------------------------------------------------------------------
# driver
# --------------------------------------------------------------------------

def _size(items):
    n = 0
    for it in items:
        n += 1 if _is_op(it) else 1 + _size(it['items'])
    return n


def worker(cases):
    env = Env.get()
    out = {'n': 0, 'events': 0, 'nontrivial': 0, 'viol': {}, 'samples': []}
    for case in cases:
        viol, nev = check_history(env, case)
        out['n'] += 1
        out['events'] += nev
        if nev:
            out['nontrivial'] += 1
        if len(out['samples']) < 1 and _has_block(case['items']):
            out['samples'].append(case)
        for v in viol:
            lst = out['viol'].setdefault(v['key'], [])
            lst.append({'size': _size(case['items']), 'case': case,
                        'clause': v['clause'], 'text': v['text'],
                        'observed': v['observed'], 'at': v['at'],
                        'op': v['op'], 'key': v['key']})
            lst.sort(key=lambda x: x['size'])
            del lst[3:]
    return out


def _run_cases(rep, name, cases, bound, rule, exhaustive):
    chunks = [cases[i::NPROC * 4] for i in range(NPROC * 4)]
    chunks = [c for c in chunks if c]
    ctx = mp.get_context('fork')
    with cf.ProcessPoolExecutor(NPROC, mp_context=ctx) as ex:
        results = list(ex.map(worker, chunks))
    merged = {}
    for r in results:
        for key, lst in r['viol'].items():
            merged.setdefault(key, []).extend(lst)
    for key in sorted(merged):
        lst = sorted(merged[key], key=lambda x: (x['size'], repr(x['case'])))
        for x in lst[:3]:
            inp = dict(x['case'], at=x['at'], op=x['op'])
            rep.violation(
                obligation='C17.' + x['clause'], what=x['text'], input=inp,
                observed=x['observed'],
                expected='see clause %r in the driver docstring'
                         % x['clause'],
                key=key, replay={'func': 'history', 'args': x['case'],
                                 'key': key})
    rep.bounded(
        name=name, function='sc3.synth.node/buffer/bus/server client '
                            'objects at main._osc_interface (NRT)',
        bound=bound, evaluations=sum(r['n'] for r in results),
        distinct_nontrivial=sum(r['nontrivial'] for r in results),
        rule=rule, samples=[s for r in results for s in r['samples']][:4],
        exhaustive=exhaustive,
        extra={'packets_judged': sum(r['events'] for r in results)})


def singles_cases(tier):
    cids = (0, 1, 2, 3) if tier == 'thorough' else (0, 2)
    cases = []
    for fixture in (FIXTURE, []):
        ops = gen_ops(mirror_after(fixture), True)
        for cid in cids:
            for op in ops:
                cases.append({'cid': cid, 'items': fixture + [op]})
                for var in bind_variants_small([op]):
                    cases.append({'cid': cid, 'items': fixture + var})
    return cases


def pairs_cases(tier):
    cids = (0, 1, 2, 3) if tier == 'thorough' else (0, 2)
    cases = []
    k = 0
    mi0 = mirror_after(FIXTURE)
    for op1 in gen_ops(mi0, False):
        mi = mirror_after(FIXTURE + [op1])
        for op2 in gen_ops(mi, False):
            cid = cids[k % len(cids)]
            cases.append({'cid': cid, 'items': FIXTURE + [op1, op2]})
            vs = bind_variants_small([op1, op2])
            if tier != 'thorough':
                vs = [vs[(k + d * 7) % len(vs)] for d in range(2)] \
                    if vs else []
            for var in vs:
                cases.append({'cid': cid, 'items': FIXTURE + var})
            k += 1
    return cases


def random_cases(tier, rng):
    n, length = (12000, 6) if tier == 'thorough' else (2500, 4)
    cases = []
    for _ in range(n):
        cid = rng.randrange(4)
        fixture = FIXTURE if rng.random() < 0.7 else []
        ln = rng.randint(max(1, length - 2), length)
        fix, ops = random_history(rng, ln, fixture)
        cases.append({'cid': cid, 'items': fix + ops})
        for _ in range(2):
            var = random_bind(ops, rng)
            if var is not None:
                cases.append({'cid': cid, 'items': fix + var})
    return cases


def main(rep):
    silence_sc3_logging()
    if wants(rep, 'singles'):
        cases = singles_cases(rep.tier)
        _run_cases(
            rep, 'singles', cases,
            'every applicable operation instance (Synth/Group/ParGroup x 5 '
            'add actions x targets {server, None, default group id, node '
            'object, node id} x {constructor, convenience constructor}, '
            'new_paused, grain, replace, every node / buffer / bus / server '
            'method with its argument variants) after {empty, standard} '
            'fixture, alone and inside every bind() placement with and '
            'without raise; client ids %s'
            % ('0..3' if rep.tier == 'thorough' else '0, 2'),
            'enumerated; non-trivial = at least one packet emitted',
            True)
    if wants(rep, 'pairs'):
        cases = pairs_cases(rep.tier)
        _run_cases(
            rep, 'pairs', cases,
            'all ordered pairs over the reduced alphabet (one variant per '
            'method) after the standard fixture; %s bind structures per pair '
            '(all segments x raise, nested blocks with caught / uncaught '
            'inner raise)' % ('all' if rep.tier == 'thorough' else '2 of the'),
            'enumerated; second operation drawn from the state after the '
            'first', True)
    if wants(rep, 'random'):
        cases = random_cases(rep.tier, rep.rng)
        _run_cases(
            rep, 'random', cases,
            'random histories of length <= %d over the full alphabet after '
            '{empty, standard} fixture, client ids 0..3, each also with 2 '
            'random bind structures (nested, raise at random positions)'
            % (6 if rep.tier == 'thorough' else 4),
            'operation group (kind, method) drawn uniformly, then the '
            'instance; seed = --seed', False)
    rep.note('C17 left unspecified: (a) calling an unguarded Buffer method '
             '(alloc, read, cue, update_info...) on a freed buffer; (b) '
             'freeing members of a Buffer.new_consecutive group one by one '
             '(documented misuse) -- groups are freed as a whole; (c) '
             'NetAddr.send_status_msg and Server.free_nodes inside bind() '
             '(BundleNetAddr drops /status by design); (d) dict values that '
             'are lists (Synth(def, {"a": [1, 2]}) raises ValueError, nothing '
             'is emitted); (e) the timetag of the bind() bundle.')


def replay(case, rep):
    r = case.get('replay') or {}
    if r.get('func') != 'history':
        return None
    env = Env.get()
    viol, _ = check_history(env, r['args'])
    want = r.get('key') or case.get('key')
    hit = [v for v in viol if v['key'] == want] or (
        [] if want else viol)
    for v in hit[:1]:
        rep.violation(obligation='C17.' + v['clause'], what=v['text'],
                      input=r['args'], observed=v['observed'], key=v['key'])
    return not hit


if __name__ == '__main__':
    driver_main('C17', main, replay)
