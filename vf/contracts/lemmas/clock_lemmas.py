"""Ghost lemma functions over the real TempoClock methods (C12). pyvc inlines
the real bodies from /repo/sc3/base/clock.py; nothing here is run by sc3."""
from sc3.base import main as _libsc3
from sc3.base import clock as clk


def beats_secs_roundtrip(clock, b):
    return clock.secs2beats(clock.beats2secs(b)) == b


def secs_beats_roundtrip(clock, s):
    return clock.beats2secs(clock.secs2beats(s)) == s


def tempo_change_is_continuous(clock, value, s2):
    s = _libsc3.main.current_tt._seconds
    b0 = clock.secs2beats(s)
    clock.tempo = value
    b1 = clock.secs2beats(s)
    return (b1 == b0 and clock.beats2secs(b1) == s
            and clock.secs2beats(s2) - b1 == value * (s2 - s)
            and clock.beats == b0)


def etempo_change_is_continuous(clock, value, s2):
    bs0 = clock._base_seconds
    bb0 = clock._base_beats
    t0 = clock._tempo
    clock.etempo(value)
    # the instant of the change, and the beat the OLD map gives for it
    s = clock._base_seconds
    b = (s - bs0) * t0 + bb0
    return (clock.secs2beats(s) == b and clock.beats2secs(b) == s
            and clock.secs2beats(s2) - b == value * (s2 - s))


def beats_change_is_continuous(clock, value, s2):
    s = _libsc3.main.current_tt._seconds
    t = clock.tempo
    clock.beats = value
    return (clock.secs2beats(s) == value and clock.beats2secs(value) == s
            and clock.beats == value
            and clock.secs2beats(s2) - value == t * (s2 - s))


def bars_beats_roundtrip(clock, x):
    return (clock.bars2beats(clock.beats2bars(x)) == x
            and clock.beats2bars(clock.bars2beats(x)) == x)


def next_bar_not_before(clock, beat):
    nb = clock.next_bar(beat)
    return nb >= beat and nb - beat < clock.beats_per_bar


def next_bar_is_bar_line(clock, beat):
    # a bar line is a beat whose bar number is integral
    return clock.beats2bars(clock.next_bar(beat))


def play_schedules_on_grid(clock, task, q, phase):
    clock.play(task, clk.Quant(q, phase))
    return clock.next_time_on_grid(q, phase)


def time_to_next_beat_nonneg(clock, q):
    return clock.time_to_next_beat(q)
