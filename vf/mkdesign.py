"""python3-vt -m vf.mkdesign: regenerates the measured tables of DESIGN.md (between the
<!-- BEGIN:<name> --> / <!-- END:<name> --> markers) from evidence/*.json, seeded/*/meta.json,
selftest_result.json and known_findings.json.  Nothing here is typed by hand."""
import collections
import glob
import json
import os
import re

VERIF = os.path.dirname(os.path.dirname(os.path.abspath(__file__)))


def short_fn(f):
    f = f.split('::', 1)[1] if '::' in f else f
    return f.split('#')[0]


def proved_table():
    rows = ['| prop | level | functions under contract (pyvc; variants/type cases merged) | obligations '
            '(discharged) by back end | lemmas / tables | bounded sub-checks (quick: evaluations) | solver ms |',
            '|---|---|---|---|---|---|---|']
    for p in sorted(glob.glob(os.path.join(VERIF, 'evidence', 'C*.json'))):
        e = json.load(open(p))
        c = e['coverage']
        fns = []
        for f in c.get('functions_under_contract', []):
            n = short_fn(f['function'])
            if n not in fns:
                fns.append(n)
        lem = collections.OrderedDict()
        tabs = collections.OrderedDict()
        for o in c.get('obligation_results', []):
            if o['name'].startswith('lemma:'):
                lem[o['name'].split('::')[0][6:]] = 1
            if o['name'].startswith('table:'):
                tabs[o['name'].split('::')[0][6:]] = 1
        be = ', '.join('%s %d' % kv for kv in sorted(c.get('backends', {}).items()))
        bd = ', '.join('%s (%s)' % (b['name'], b['evaluations']) for b in c.get('bounded', []))
        lt = '; '.join(['lemma ' + x for x in lem] + ['table ' + x for x in tabs]) or '—'
        rows.append('| %s | %s | %s | %d (%d): %s | %s | %s | %s |' % (
            e['property_id'], e['level'], ', '.join('`%s`' % f for f in fns if not f.startswith('lemma'))
            or '—', c.get('obligations', 0), c.get('discharged', 0), be or '—', lt, bd or '—',
            c.get('solver_ms_total', 0)))
    return '\n'.join(rows)


def seeds_table():
    rows = ['| seed | property | what the change does (first line of its notes) | demo clean/changed | suite with change | '
            'check verdict | decided by | first reported obligation |',
            '|---|---|---|---|---|---|---|---|']
    metas = sorted(glob.glob(os.path.join(VERIF, 'seeded', '*', 'meta.json')))
    tot = collections.Counter()
    for m in metas:
        d = json.load(open(m))
        prop = d['property']
        ch = (d.get('checks') or {}).get(prop, {})
        rr = d.get('repo_route') or {}
        if rr.get('deciders') is not None:
            # the latest run through `git -C /repo apply` against the final machinery
            ch = dict(ch, exit=rr['exit'], violations=rr['violations'], first=rr['first'], deciders=rr['deciders'])
            d = dict(d, caught=(rr['exit'] == 1 and rr['violations'] > 0))
        needs = (d.get('needs') or '').strip().split('\n')
        title = next((l.strip() for l in needs if l.strip() and not set(l.strip()) <= set('=-')), '')
        first = (ch.get('first') or [''])[0]
        ob = re.search(r'obligation=(\S+)', first)
        dec = '+'.join(ch.get('deciders') or []) or '—'
        tot[dec] += 1
        rows.append('| %s | %s | %s | %s/%s | %s | %s | %s | `%s` |' % (
            d['id'], prop, title[:110].replace('|', '/'), d.get('demo_unchanged'), d.get('demo_changed'),
            '%s passed' % (d.get('suite_changed') or ['?'])[0],
            'VIOLATION (exit %s, %s lines)' % (ch.get('exit'), ch.get('violations')) if d.get('caught') else 'MISSED',
            dec, (ob.group(1) if ob else '')[:90]))
    rows.append('')
    rows.append('Totals: %d seeds, %d caught; decided by: %s.' % (
        len(metas), sum(1 for m in metas if (lambda x: (x.get('repo_route') or {}).get('exit', 1 if x.get('caught') else 0) == 1)(json.load(open(m)))),
        ', '.join('%s %d' % kv for kv in sorted(tot.items()))))
    return '\n'.join(rows)


def selftest_table():
    p = os.path.join(VERIF, 'selftest_result.json')
    if not os.path.exists(p):
        return '(not run)'
    d = json.load(open(p))
    rows = ['| kind | prop | edit | result |', '|---|---|---|---|']
    for kind in ('harmless', 'breaking'):
        for r in d[kind]:
            rows.append('| %s | %s | %s | %s |' % (kind, r['prop'], r['what'], r['status']))
    return '\n'.join(rows)


def findings_table():
    d = json.load(open(os.path.join(VERIF, 'known_findings.json')))
    rows = ['| property | key | what fails |', '|---|---|---|']
    for f in d.get('findings', []):
        rows.append('| %s | `%s` | %s |' % (f.get('property'), f.get('key'), (f.get('what') or f.get('title') or '')[:300].replace('|', '/')))
    rows.append('')
    rows.append('`fixed:` entries: %d.' % len(d.get('fixed', [])))
    return '\n'.join(rows)


GEN = {'proved': proved_table, 'seeds': seeds_table, 'selftest': selftest_table, 'findings': findings_table}


def main():
    p = os.path.join(VERIF, 'DESIGN.md')
    s = open(p).read()
    for name, fn in GEN.items():
        a, b = '<!-- BEGIN:%s -->' % name, '<!-- END:%s -->' % name
        if a in s and b in s:
            s = s[:s.index(a) + len(a)] + '\n' + fn() + '\n' + s[s.index(b):]
    open(p, 'w').write(s)


if __name__ == '__main__':
    main()
