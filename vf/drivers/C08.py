"""C08  Real-time clocks wake every task once, on time, in order, and survive
errors.

All scenarios run in real-time subprocesses (vf.drivers._rt_child) under
injected wake-up jitter and CPU load; the child only records, the verdicts are
taken here from the records (ghost monitors: a global sequence counter, the
logical time the task sees, physical time.time()).

Gates (unconditional): every scheduling is awakened exactly once; the logical
time at the awakening equals the requested time; never physically before the
scheduled time (1 ms float-conversion tolerance); per clock, earlier scheduled
time first and FIFO among equal times scheduled from ONE thread; a numeric
return value re-schedules relative to the scheduled time (AppClock: relative to
the physical present, documented drift, only >= is demanded); nothing pending
fires after clear()/stop(); a raising task is logged and nobody else is
affected; a tempo change while the TempoClock thread sleeps moves the pending
task to its new time.
Timeliness gates ONLY on the discriminating scenario (task A at +2 s, then
task B at +50 ms from another thread while the clock thread sleeps: B must run
before +1 s).  All other lateness is measured and reported as data.
A failure is reported only when it reproduces in two more fresh subprocesses.

Sub-checks: storm, errors, cancel, ab, tempo
"""
import json

from vf.common import Report, driver_main, wants
from vf.drivers._rt_child import run_children

TOL = 1e-9
EARLY_TOL = 1e-3
COUNTS = {'order_pairs': 0, 'fifo_pairs': 0, 'resched': 0, 'exact_req': 0,
          'interval_req': 0, 'raised': 0}
EXC_NAMES = ['ValueError', 'KeyError', 'RuntimeError', 'ZeroDivisionError',
             'TypeError', 'OSError', 'StopIteration', 'AssertionError',
             'Custom']
CLOCKS = ['sys', 'app', 'T0:1', 'T1:2']
SOURCES = ['main', 'osc', 'osc2', 'clk:sys', 'clk:T0:1', 'clk:app', 'clk:T1:2']
DELAYS = [0, 0.001, 0.005, 0.02, 0.02, 0.005]


def tempo_of(cname):
    return float(cname.split(':')[1]) if cname not in ('sys', 'app') else 1.0


# --------------------------------------------------------------------------
# scenario generators
# --------------------------------------------------------------------------

def gen_storm(rng, n, with_exc, sid):
    tasks = []
    for i in range(n):
        clock = rng.choice(CLOCKS)
        src = rng.choice(SOURCES)
        plain = not src.startswith('clk:')
        how = 'abs' if (clock != 'app' and plain and rng.random() < 0.5) else 'rel'
        d = rng.choice(DELAYS)
        if how == 'rel':
            d = d * tempo_of(clock)        # beats on a TempoClock
        ret = []
        if rng.random() < 0.25:
            ret = rng.choice([[0.005], [0.01, 0.0], [0.02, 0.001], [0, 0.003]])
        spec = {'id': '%s.%d' % (sid, i), 'clock': clock, 'from': src,
                'how': how, 'delay': d, 'ret': ret}
        if with_exc and rng.random() < 0.3:
            spec['raise'] = rng.choice(EXC_NAMES)
            spec['raise_at'] = rng.randint(0, len(ret))
        tasks.append(spec)
    return {'kind': 'storm', 'id': sid, 'clocks': CLOCKS, 'tasks': tasks,
            'lead': 0.05, 'slack': 5.0}


def gen_cancel(sid):
    out = []
    i = 0
    for clock in CLOCKS:
        for op in ('clear', 'stop'):
            if op == 'stop' and clock in ('sys', 'app'):
                continue        # only TempoClock has a public stop()
            for op_from in ('main', 'osc', 'clk:sys' if clock != 'sys' else 'clk:T0:1'):
                out.append({'kind': 'cancel', 'id': '%s.%d' % (sid, i),
                            'clock': clock, 'op': op, 'op_from': op_from,
                            'delays': [0.45, 0.45, 0.5, 0.55, 0.7],
                            'ret': [0.01] if i % 2 else [],
                            'op_at': 0.05, 'wait': 0.35})
                i += 1
    return out


def gen_ab(sid):
    out = []
    i = 0
    for clock in CLOCKS:
        for b_from in ('osc', 'clk:sys' if clock != 'sys' else 'clk:T1:2'):
            out.append({'kind': 'ab', 'id': '%s.%d' % (sid, i), 'clock': clock,
                        'b_from': b_from})
            i += 1
    return out


def gen_tempo(sid):
    out = []
    for i, (t0, t1, beat, frm) in enumerate([
            (1, 10, 1.0, 'main'), (1, 0.25, 0.2, 'osc'), (2, 8, 1.6, 'osc'),
            (3, 1, 0.6, 'main'), (0.5, 5, 0.5, 'main'), (4, 1, 0.8, 'osc')]):
        out.append({'kind': 'tempo', 'id': '%s.%d' % (sid, i), 'tempo0': t0,
                    'tempo1': t1, 'beat': beat, 'from': frm, 'at': 0.05})
    return out


# --------------------------------------------------------------------------
# verdicts
# --------------------------------------------------------------------------

def expected_awakes(t):
    n = len(t['ret']) + 1
    if t.get('raise'):
        n = min(n, t['raise_at'] + 1)
    return n


def sched_value(t, a):
    """The quantity the clock orders by, as seen by the task: beats on a
    TempoClock, seconds otherwise."""
    return a['beats'] if t['clock'] not in ('sys', 'app') else a['logical']


def lateness(tasks):
    xs = [a['elapsed'] - a['logical'] for t in tasks for a in t['awakes']]
    return xs


def check_common(tasks, init_time, complete=True, count=True):
    """exactly-once, logical == requested, never early, numeric re-scheduling,
    order.  Returns list of (clause, what, observed, expected)."""
    out = []
    for t in tasks:
        if t.get('sched_error'):
            out.append(('schedule-raises',
                        'scheduling task %s on %s from %s raised %s'
                        % (t['id'], t['clock'], t['from'], t['sched_error']),
                        t['sched_error'], 'scheduled'))
            continue
        n = len(t['awakes'])
        exp = expected_awakes(t)
        if count and n != exp:
            out.append(('exactly-once',
                        'task %s on %s (scheduled from %s, delay %r): %d '
                        'awakenings for %d schedulings'
                        % (t['id'], t['clock'], t['from'], t['delay'], n, exp),
                        n, exp))
        if not t['awakes']:
            continue
        a0 = t['awakes'][0]
        v0 = sched_value(t, a0)
        COUNTS['exact_req' if t['requested'] is not None else 'interval_req'] += 1
        if t['requested'] is not None:
            if abs(v0 - t['requested']) > TOL:
                out.append(('logical-time',
                            'task %s on %s: awakened at logical %r, requested %r'
                            % (t['id'], t['clock'], v0, t['requested']),
                            v0, t['requested']))
        elif t['req_lo'] is not None:
            if not (t['req_lo'] - TOL <= v0 <= t['req_hi'] + TOL):
                out.append(('logical-time',
                            'task %s on %s: awakened at logical %r, requested '
                            'within [%r, %r]' % (t['id'], t['clock'], v0,
                                                 t['req_lo'], t['req_hi']),
                            v0, [t['req_lo'], t['req_hi']]))
        for k, a in enumerate(t['awakes']):
            if a['phys'] < init_time + a['logical'] - EARLY_TOL:
                out.append(('never-early',
                            'task %s on %s awakened %.6f s before its '
                            'scheduled time'
                            % (t['id'], t['clock'],
                               init_time + a['logical'] - a['phys']),
                            a['phys'] - init_time, a['logical']))
            if k > 0 and k - 1 < len(t['ret']):
                COUNTS['resched'] += 1
                prev = sched_value(t, t['awakes'][k - 1])
                cur = sched_value(t, a)
                d = t['ret'][k - 1]
                if t['clock'] == 'app':
                    if cur < prev + d - TOL:
                        out.append(('reschedule',
                                    'AppClock task %s re-awakened at %r < '
                                    'previous %r + returned %r'
                                    % (t['id'], cur, prev, d), cur, prev + d))
                elif abs(cur - (prev + d)) > TOL:
                    out.append(('reschedule',
                                'task %s on %s returned %r at scheduled time '
                                '%r and was re-awakened at %r (expected %r)'
                                % (t['id'], t['clock'], d, prev, cur, prev + d),
                                cur, prev + d))
    # order per clock
    by_clock = {}
    for t in tasks:
        for k, a in enumerate(t['awakes']):
            # sequence number after which this awakening was in the queue
            inq = t['sched_seq'] if k == 0 else t['awakes'][k - 1]['seq']
            by_clock.setdefault(t['clock'], []).append((t, k, a, inq))
    for clock, items in by_clock.items():
        for (ti, ki, ai, inqi) in items:
            if inqi is None:
                continue
            vi = sched_value(ti, ai)
            for (tj, kj, aj, inqj) in items:
                if ti is tj or inqj is None:
                    continue
                vj = sched_value(tj, aj)
                if inqi < aj['seq'] and inqi < ai['seq'] and vi < vj - TOL:
                    COUNTS['order_pairs'] += 1
                if (ki == 0 and kj == 0 and ti['from'] == tj['from']
                        and ti['requested'] is not None
                        and ti['requested'] == tj['requested']
                        and inqi < inqj < aj['seq']):
                    COUNTS['fifo_pairs'] += 1
                if aj['seq'] < ai['seq'] and inqi < aj['seq']:
                    # j ran first although i was already queued
                    if vi < vj - TOL:
                        out.append(('order',
                                    'clock %s: task %s (time %r) awakened '
                                    'before task %s (time %r) which was '
                                    'already scheduled'
                                    % (clock, tj['id'], vj, ti['id'], vi),
                                    [tj['id'], ti['id']], [ti['id'], tj['id']]))
                    elif (ki == 0 and kj == 0 and ti['from'] == tj['from']
                          and ti['requested'] is not None
                          and ti['requested'] == tj['requested']
                          and inqi < inqj):
                        out.append(('fifo',
                                    'clock %s: tasks %s and %s scheduled in '
                                    'this order from thread %s for the same '
                                    'time %r were awakened in reverse order'
                                    % (clock, ti['id'], tj['id'], ti['from'],
                                       ti['requested']),
                                    [tj['id'], ti['id']], [ti['id'], tj['id']]))
    return out


def check_storm(scn, res):
    pre = []
    have = {t['id'] for t in res['tasks']}
    missing = [t for t in scn['tasks'] if t['id'] not in have]
    for src in sorted({t['from'] for t in missing}):
        if src.startswith('clk:') and src not in res.get('launchers', {}):
            # the launcher is itself a task scheduled at +10 ms on that clock
            pre.append(('exactly-once',
                        'a task scheduled at +10 ms on %s from the main thread '
                        'was never awakened' % src[4:], 0, 1))
        else:
            raise RuntimeError('harness: schedulings from %s were not issued '
                               'in %s' % (src, scn['id']))
    out = pre + check_common(res['tasks'], res['init_time'])
    raisers = [t for t in res['tasks'] if t.get('raise')
               and len(t['awakes']) > t['raise_at']]
    logged = [r for r in res.get('log', []) if r.get('exc')]
    for t in raisers:
        COUNTS['raised'] += 1
        tag = 'c08-task-%s' % t['id']
        hits = [r for r in logged if r['exc'].endswith(tag)
                or tag in r['exc']]
        if not hits:
            out.append(('exception-logged',
                        'task %s raised %s on %s and no log record carries it'
                        % (t['id'], t['raise'], t['clock']), 0, 1))
    return out


def check_cancel(scn, res):
    out = []
    op = res['op']
    if 'seq_after' not in op:
        out.append(('cancel', '%s() on %s did not return' % (scn['op'], scn['clock']),
                    None, 'returns'))
        return out
    grace = 0.0 if scn['op'] == 'clear' else 0.15   # stop() is asynchronous
    for t in res['tasks']:
        if t['id'] == 'probe':
            continue
        for a in t['awakes']:
            if a['seq'] > op['seq_after'] and a['phys'] > op['phys_after'] + grace:
                out.append(('cancel',
                            'task %s pending on %s fired %.3f s after %s() '
                            'returned' % (t['id'], scn['clock'],
                                          a['phys'] - op['phys_after'], scn['op']),
                            a['phys'] - op['phys_after'], 'never'))
    out += check_common([t for t in res['tasks'] if t['id'] != 'probe'],
                        res['init_time'], count=False)
    if scn['op'] == 'clear':
        probe = [t for t in res['tasks'] if t['id'] == 'probe']
        if probe:
            out += check_common(probe, res['init_time'])
    return out


def check_ab(scn, res):
    out = []
    tasks = {t['id']: t for t in res['tasks']}
    b = tasks.get('B')
    if b is None or res.get('t_call') is None:
        out.append(('timely', 'B was never scheduled (launcher on %s did not '
                    'run within 1.6 s)' % scn['b_from'], None, '< 1 s'))
        return out
    if not b['awakes']:
        out.append(('timely',
                    'clock %s sleeping until A (+2 s): B scheduled at +50 ms '
                    'from %s did not run within 1.6 s' % (scn['clock'], scn['b_from']),
                    None, '< 1 s'))
    else:
        dt = b['awakes'][0]['phys'] - res['t_call']
        if dt >= 1.0:
            out.append(('timely',
                        'clock %s sleeping until A (+2 s): B scheduled at '
                        '+50 ms from %s ran after %.3f s'
                        % (scn['clock'], scn['b_from'], dt), dt, '< 1 s'))
    out += check_common([t for t in res['tasks'] if t['id'] == 'B'],
                        res['init_time'], count=False)
    return out


def check_tempo(scn, res):
    out = check_common(res['tasks'], res['init_time'])
    info = res['info']
    for t in res['tasks']:
        for a in t['awakes']:
            lo, hi = info['expected_secs_lo'], info['expected_secs_hi']
            lo, hi = min(lo, hi), max(lo, hi)
            if not (lo - TOL <= a['logical'] <= hi + TOL):
                out.append(('tempo-reschedule',
                            'tempo %r -> %r while sleeping: task for beat '
                            '%r awakened at logical %r s, the new tempo map '
                            'puts it in [%r, %r]'
                            % (scn['tempo0'], scn['tempo1'], scn['beat'],
                               a['logical'], lo, hi), a['logical'], [lo, hi]))
            # on time under the NEW map: when the change moves the deadline at least 0.4 s
            # earlier, the task must not be left sleeping towards the old one (half of the gap
            # is allowed as wake-up latency; failures are re-run in fresh processes)
            stale = info.get('stale_secs')
            if stale is not None and stale - hi >= 0.4:
                late_by = a['phys'] - res['init_time'] - hi
                if late_by > (stale - hi) / 2:
                    out.append(('tempo-deadline',
                                'tempo %r -> %r while sleeping: task for beat %r is due at %.3f s '
                                'under the new map (%.3f s under the old one) and is awakened '
                                '%.3f s after that' % (scn['tempo0'], scn['tempo1'], scn['beat'],
                                                       hi, stale, late_by),
                                round(late_by, 3), '< %.3f' % ((stale - hi) / 2)))
    return out


CHECKS = {'storm': check_storm, 'cancel': check_cancel, 'ab': check_ab,
          'tempo': check_tempo}


# --------------------------------------------------------------------------

def run_scenarios(scns, seed, jitter=20, busy=2, nchildren=16):
    nchildren = max(1, min(nchildren, len(scns)))
    groups = [scns[i::nchildren] for i in range(nchildren)]
    inputs = [{'mode': 'rt', 'seed': seed + i, 'jitter_ms': jitter,
               'busy': busy,
               'jobs': [{'kind': 'c08', 'scn': s} for s in g]}
              for i, g in enumerate(groups)]
    outs = run_children(inputs)
    res = {}
    errors = []
    for g, o in zip(groups, outs):
        if o.get('error'):
            errors.append(o['error'])
        for s, r in zip(g, o.get('results', [])):
            res[s['id']] = r
    return res, errors


def evaluate(rep, sub, scns, seed):
    """Run, check, confirm failures in fresh children, report."""
    for k in COUNTS:
        COUNTS[k] = 0
    results, errors = run_scenarios(scns, seed)
    for e in errors:
        rep.error('C08 rt child: ' + e[-1500:])
    stats = {'n': 0, 'awakes': 0, 'late': [], 'tasks': 0}
    for scn in scns:
        res = results.get(scn['id'])
        if res is None:
            continue
        if 'scenario_error' in res:
            rep.error('C08 scenario %s crashed in the child: %s'
                      % (scn['id'], res['scenario_error'][-1200:]))
            continue
        stats['n'] += 1
        stats['tasks'] += len(res['tasks'])
        stats['awakes'] += sum(len(t['awakes']) for t in res['tasks'])
        stats['late'] += lateness(res['tasks'])
        problems = CHECKS[scn['kind']](scn, res)
        stats['counts'] = dict(COUNTS)
        if not problems:
            continue
        clauses = {}
        for p in problems:
            clauses.setdefault(p[0], p)
        confirmed = dict(clauses)
        for attempt, (jit, bz) in enumerate(((20, 2), (0, 0))):
            again, errs = run_scenarios([scn], seed + 1000 + attempt, jit, bz)
            r2 = again.get(scn['id'])
            if r2 is None or 'scenario_error' in r2:
                confirmed = {}
                break
            seen = {p[0] for p in CHECKS[scn['kind']](scn, r2)}
            confirmed = {c: p for c, p in confirmed.items() if c in seen}
            if not confirmed:
                break
        for clause, p in confirmed.items():
            rep.violation(
                obligation='C08.%s' % clause,
                what='[%s] %s' % (scn['kind'], p[1]),
                input={'scenario': scn}, observed=p[2], expected=p[3],
                key='C08.%s:%s' % (scn['kind'], clause),
                replay={'func': 'scenario', 'args': scn})
        dropped = set(clauses) - set(confirmed)
        if dropped:
            rep.note('C08.%s: scenario %s: %s failed once and did not '
                     'reproduce in fresh runs (not reported)'
                     % (sub, scn['id'], sorted(dropped)))
    return stats


def late_summary(late, st=None):
    if not late:
        return {}
    late = sorted(late)
    return {**((st or {}).get('counts') or {}),'lateness_max_s': round(late[-1], 4),
            'lateness_p50_s': round(late[len(late) // 2], 4),
            'lateness_p99_s': round(late[int(len(late) * 0.99)], 4),
            'lateness_min_s': round(late[0], 6)}


def main(rep):
    quick = rep.tier == 'quick'
    rng = rep.rng
    if wants(rep, 'storm'):
        nscn, ntask = (12, 40) if quick else (240, 120)
        scns = [gen_storm(rng, ntask if i % 3 else ntask // 4, False, 's%d' % i)
                for i in range(nscn)]
        st = evaluate(rep, 'storm', scns, rep.seed)
        rep.bounded(
            name='storm',
            function='SystemClock/AppClock/TempoClock sched, sched_abs, _run (RtMain)',
            bound='%d scenarios x up to %d tasks on 4 clocks (SystemClock, '
                  'AppClock, TempoClock tempo 1 and 2) scheduled concurrently '
                  'from the main thread, 2 plain threads and tasks on 4 clock '
                  'threads; delays {0,1,5,20 ms, equal times}; 25%% with '
                  'numeric return values; 0-20 ms wake-up jitter + 2 busy '
                  'threads' % (nscn, ntask),
            evaluations=st['tasks'], distinct_nontrivial=st['awakes'],
            rule='evaluations = schedulings issued, distinct = awakenings '
                 'observed and checked (exactly once, logical==requested, '
                 'never early, order, FIFO, re-scheduling)',
            samples=[scns[0]['tasks'][:3], scns[-1]['tasks'][:3]],
            extra=late_summary(st['late'], st))
    if wants(rep, 'errors'):
        nscn, ntask = (8, 30) if quick else (120, 100)
        scns = [gen_storm(rng, ntask, True, 'e%d' % i) for i in range(nscn)]
        st = evaluate(rep, 'errors', scns, rep.seed + 1)
        rep.bounded(
            name='errors',
            function='clock _run/_wakeup exception handling (RtMain)',
            bound='%d storm scenarios x %d tasks, 30%% of the tasks raise one '
                  'of %d Exception subclasses at their first or last '
                  'awakening' % (nscn, ntask, len(EXC_NAMES)),
            evaluations=st['tasks'], distinct_nontrivial=st['awakes'],
            rule='every raised exception has a log record; all storm gates '
                 'hold for every task',
            samples=[[t for t in scns[0]['tasks'] if t.get('raise')][:3]],
            extra=late_summary(st['late'], st))
    if wants(rep, 'cancel'):
        scns = gen_cancel('c')
        st = evaluate(rep, 'cancel', scns, rep.seed + 2)
        rep.bounded(
            name='cancel', function='clear() on the 3 clock kinds, TempoClock.stop()',
            bound='%d scenarios: 5 tasks pending at +0.45..0.7 s (half of '
                  'them self-rescheduling), clear()/stop() at +50 ms from the '
                  'main thread, a plain thread or a task on another clock'
                  % len(scns),
            evaluations=st['n'], distinct_nontrivial=st['n'],
            rule='nothing pending fires after the call returned (stop(): '
                 '150 ms grace, it is asynchronous); after clear() a new '
                 'task is awakened exactly once', samples=scns[:3],
            exhaustive=True)
    if wants(rep, 'ab'):
        scns = gen_ab('ab')
        st = evaluate(rep, 'ab', scns, rep.seed + 3)
        late = []
        rep.bounded(
            name='ab', function='_sched_add notification / _run sleep loop',
            bound='%d scenarios: A at +2 s, 150 ms later B at +50 ms from a '
                  'plain thread or from a task on another clock, for each of '
                  'the 4 clocks' % len(scns),
            evaluations=st['n'], distinct_nontrivial=st['n'],
            rule='B runs before +1 s (the only timeliness gate)',
            samples=scns[:3], exhaustive=True,
            extra=late_summary(st['late'], st))
    if wants(rep, 'tempo'):
        scns = gen_tempo('t')
        st = evaluate(rep, 'tempo', scns, rep.seed + 4)
        rep.bounded(
            name='tempo', function='TempoClock.tempo setter / _run',
            bound='%d scenarios: one task pending, tempo changed (faster and '
                  'slower) 50 ms later from the main thread or a plain thread'
                  % len(scns),
            evaluations=st['n'], distinct_nontrivial=st['n'],
            rule='awakened exactly once, at the beat requested, at the '
                 'logical seconds of the NEW tempo map (public beats2secs), '
                 'never physically early', samples=scns[:3], exhaustive=True,
            extra=late_summary(st['late'], st))
    rep.note('C08: lateness figures are measurements on a shared machine, not '
             'verdicts; SystemClock has no public stop(), so stop() is only '
             'exercised on TempoClock; order between tasks scheduled for the '
             'same time from different threads is not constrained.')


def replay(case, rep):
    r = case.get('replay') or {}
    scn = r.get('args') or case['input']['scenario']
    results, errors = run_scenarios([scn], 7)
    res = results.get(scn['id'])
    if res is None:
        rep.error('rt child failed: %r' % (errors,))
        return None
    problems = CHECKS[scn['kind']](scn, res)
    for p in problems[:3]:
        rep.violation(obligation='C08.%s' % p[0], what=p[1],
                      input={'scenario': scn}, observed=p[2], expected=p[3],
                      key='C08.%s:%s' % (scn['kind'], p[0]))
    return not problems


if __name__ == '__main__':
    driver_main('C08', main, replay)
