"""C03 - multichannel expansion follows the wrap-and-zip law everywhere.

Bounded run-time contract driver.  Sub-checks (``--only``):

  ctor            every installed unit-generator class whose ar/kr/ir/dr/new
                  body is a single direct delegation to ``cls._multi_new`` x
                  argument shapes for the first 3 parameters, against
                  vf.specs.expand.mn applied to the same constructor.
  operators       every unary/binary operator method of AbstractObject on a
                  ChannelList receiver (and the python operator syntax with the
                  ChannelList on either side) against the law applied to the
                  operator on the leaves.
  chlist-methods  every ChannelList convenience method against the law applied
                  to the single-UGen method of the same name.
  out-units       Out/ReplaceOut/OffsetOut/XOut/LocalOut: one unit per
                  combination, channel list splatted into its inputs, literal
                  zeros replaced by audio-rate silence (objects and bytes).
  list-algebra    sc3.base.utils list helpers against the reference on nested
                  int lists.

How a case is judged (ctor/operators/chlist-methods): the real call and the
reference are evaluated in two separate, abandoned SynthDef builds with freshly
made, structurally distinguishable atoms; the returned values and the multiset
of units each build created are compared structurally (class, rate, special
index, inputs recursively, constants by value, output index of proxies).  When
the *reference* raises (the single-channel call itself is not defined for these
values) the law says nothing and the case is skipped and counted as undefined.
"""
import ast
import inspect
import itertools
import operator
import textwrap
from concurrent.futures import ProcessPoolExecutor
import multiprocessing

from vf.common import driver_main, wants, silence_sc3_logging
from vf.specs import expand as E
from vf.specs import scgf

_S = {}


def _sc3():
    """Import sc3 once per process (NRT mode) and cache what is needed."""
    if _S:
        return _S
    import warnings
    import sys
    warnings.simplefilter('ignore')
    silence_sc3_logging()
    _hook = sys.unraisablehook

    def quiet(u):
        # SynthDef.as_bytes keeps a memoryview of a BytesIO; when both die in
        # one gc pass CPython prints "deallocated BytesIO object has exported
        # buffers".  Harmless, and drivers must be quiet.
        if isinstance(u.exc_value, SystemError) and 'BytesIO' in str(u.exc_value):
            return
        _hook(u)
    sys.unraisablehook = quiet
    import sc3
    sc3.init('nrt')
    from sc3.base import main as _m
    from sc3.base import utils as utl
    from sc3.base import absobject as aob
    from sc3.synth import ugens
    from sc3.synth import ugen as ugn
    from sc3.synth.synthdef import SynthDef
    _S.update(m=_m, utl=utl, aob=aob, ugens=ugens, ugn=ugn, SynthDef=SynthDef,
              CL=ugn.ChannelList, reg=ugens.installed_ugens,
              DC=ugens.installed_ugens['DC'])
    return _S


# --------------------------------------------------------------------------
# build context, structural canon
# --------------------------------------------------------------------------

class _Abort(Exception):
    pass


def _in_build(body, finish=False, name='c03'):
    """Evaluate body() inside a SynthDef graph function.  finish=False abandons
    the build (no input checks, no optimisation); returns (value, sdef|None)."""
    S = _sc3()
    box = {}

    def graph():
        box['r'] = body()
        if not finish:
            raise _Abort()
    try:
        sd = S['SynthDef'](name, graph)
    except _Abort:
        sd = None
    return box.get('r'), sd


def _children():
    return _sc3()['m'].main._current_synthdef._children


_CMP_NORMAL = {'>': ('<', 'swap'), '>=': ('<=', 'swap'), '<': ('<', None),
               '<=': ('<=', None), '==': ('==', 'sort'), '!=': ('!=', 'sort')}


def _canon(x, memo):
    S = _sc3()
    ugn = S['ugn']
    if isinstance(x, (bool, int, float)):
        x = float(x)
        return ('c', 'nan') if x != x else ('c', x)
    if isinstance(x, str):
        return ('s', x)
    if x is None:
        return ('n',)
    if isinstance(x, tuple):
        return ('t', tuple(_canon(i, memo) for i in x))
    if isinstance(x, list):
        return ('L', tuple(_canon(i, memo) for i in x))
    k = id(x)
    if k in memo:
        return memo[k]
    if isinstance(x, ugn.OutputProxy):
        r = ('p', _canon(x.source_ugen, memo), x._output_index, x.rate)
    elif isinstance(x, ugn.BinaryOpUGen) and x.operator in _CMP_NORMAL:
        # python evaluates `u < v` between two unit generators as u.__lt__(v)
        # but `[u] < ChannelList([v])` through the reflected v.__gt__(u): the
        # same signal.  Comparisons are compared up to that mirror image.
        ins = [_canon(i, memo) for i in x.inputs]
        op, how = _CMP_NORMAL[x.operator]
        if how == 'sort':
            ins.sort(key=repr)
        elif how == 'swap':
            ins.reverse()
        r = ('u', 'BinaryOpUGen', x.rate, op, tuple(ins), 0)
    elif isinstance(x, ugn.SynthObject):
        r = ('u', type(x).__name__, x.rate, x._special_index,
             tuple(_canon(i, memo) for i in x.inputs), len(x._channels))
    else:
        r = ('o', type(x).__name__)
    memo[k] = r
    return r


def _observe(thunk_args, call):
    """Inside a build: make the arguments, run call(args), return
    (exception text|None, canon(result), sorted canon of created units,
    result is ChannelList, result is list)."""
    S = _sc3()

    def body():
        args = thunk_args()
        n0 = len(_children())
        try:
            r = call(args)
            exc = None
        except Exception as e:   # sc3 raised: recorded, judged by the caller
            r = None
            exc = '%s: %s' % (type(e).__name__, e)
        memo = {}
        units = sorted(repr(_canon(u, memo)) for u in _children()[n0:]
                       if u is not None)
        return (exc, _canon(r, memo), units, isinstance(r, S['CL']),
                isinstance(r, list))
    return _in_build(body)[0]


def _short(x, n=400):
    s = repr(x)
    return s if len(s) <= n else s[:n] + '...'


def _judge(real, ref, any_list, compare_value=True):
    """-> ('undef'|'ok'|'viol', what, observed, expected)."""
    if ref[0] is not None:
        return ('undef', None, None, None)
    if real[0] is not None:
        return ('viol', 'raises ' + real[0], real[0], _short(ref[1]))
    if compare_value and real[1] != ref[1]:
        return ('viol', 'result differs from the law', _short(real[1]),
                _short(ref[1]))
    if compare_value and any_list and not real[3]:
        return ('viol', 'expanded result is not a ChannelList',
                _short(real[1]), 'ChannelList')
    if real[2] != ref[2]:
        return ('viol', 'created %d units, the law creates %d (or different '
                'units)' % (len(real[2]), len(ref[2])),
                _short(real[2]), _short(ref[2]))
    return ('ok', None, None, None)


# --------------------------------------------------------------------------
# argument shapes
# --------------------------------------------------------------------------

LISTY = ('l1', 'l2', 'l3', 'l4', 'n', 'n2', 'cl', 'clcl', 'lu')
SHAPES_QUICK = ('s', 't', 'l1', 'l2', 'l3', 'n', 'cl', 'om')
SHAPES_THOROUGH = SHAPES_QUICK + ('l4', 'n2', 'clcl')


def _atom(alpha, v):
    """alpha: 'int' -> the int v; 'ar'/'kr' -> a fresh DC unit holding v;
    'mix' -> alternate."""
    DC = _sc3()['DC']
    if alpha == 'int':
        return v
    if alpha == 'flt':
        return v + 0.5
    if alpha == 'ar':
        return DC.ar(v)
    if alpha == 'kr':
        return DC.kr(v)
    if alpha == 'mix':
        return v if v % 2 else DC.ar(v)
    raise ValueError(alpha)


BIN_SELECTORS = ('+', '-', '*', '/', 'min', 'max', '<', 'pow')
UN_SELECTORS = ('neg', 'abs', 'sin', 'cos', 'midicps', 'sqrt', 'floor', 'tanh')


def _special_atom(cname, pname, v):
    """Parameters that are not signals: operator selectors and Klang-style
    specification tuples need values of their own kind to be defined at all."""
    if pname == 'selector':
        names = UN_SELECTORS if cname == 'UnaryOpUGen' else BIN_SELECTORS
        return names[v % len(names)]
    if pname in ('spec', 'specs'):
        return ([100 + v, 200 + v], [0.25, 0.5], [0, 0.75])
    return None


def _mk(shape, j, alpha, cname=None, pname=None):
    """Value of shape `shape` for parameter position j."""
    CL = _sc3()['CL']

    def a(k):
        sp = _special_atom(cname, pname, 2 + 10 * j + k)
        return sp if sp is not None else _atom(alpha, 2 + 10 * j + k)
    if shape == 's':
        return a(0)
    if shape == 't':
        return (a(0), a(1))
    if shape == 'l1':
        return [a(0)]
    if shape == 'l2':
        return [a(0), a(1)]
    if shape == 'l3':
        return [a(0), a(1), a(2)]
    if shape == 'l4':
        return [a(0), a(1), a(2), a(3)]
    if shape == 'n':
        return [[a(0), a(1)], a(2)]
    if shape == 'n2':
        return [[a(0)], [a(1), [a(2), a(3)]]]
    if shape == 'cl':
        return CL([a(0), a(1)])
    if shape == 'clcl':
        return CL([CL([a(0), a(1)]), a(2)])
    raise ValueError(shape)


# --------------------------------------------------------------------------
# (a) constructors
# --------------------------------------------------------------------------

CTORS = ('ar', 'kr', 'ir', 'dr', 'new')


def _scan_func(fn):
    """Is the body of this constructor a single direct delegation
    `[return] cls._multi_new(<constant rate>, <own parameters / constants>)`?
    -> (True, 'return'|'expr') or (False, reason)."""
    try:
        src = textwrap.dedent(inspect.getsource(fn))
        node = ast.parse(src).body[0]
    except (OSError, TypeError, SyntaxError, IndexError) as e:
        return False, 'no source (%s)' % type(e).__name__
    if not isinstance(node, ast.FunctionDef):
        return False, 'not a function definition'
    body = [s for s in node.body
            if not (isinstance(s, ast.Expr) and isinstance(s.value, ast.Constant))]
    if len(body) != 1:
        return False, 'pre-/post-processing (%d statements)' % len(body)
    s = body[0]
    if isinstance(s, ast.Return):
        v, kind = s.value, 'return'
    elif isinstance(s, ast.Expr):
        v, kind = s.value, 'expr'
    else:
        return False, 'single statement is a %s' % type(s).__name__.lower()
    if not (isinstance(v, ast.Call) and isinstance(v.func, ast.Attribute)
            and v.func.attr == '_multi_new'
            and isinstance(v.func.value, ast.Name) and v.func.value.id == 'cls'):
        return False, 'does not call cls._multi_new directly'
    if node.args.vararg or node.args.kwonlyargs or node.args.kwarg:
        return False, 'variadic signature'
    if v.keywords or not v.args:
        return False, 'keyword/empty delegation'
    params = [a.arg for a in node.args.args][1:]
    if not isinstance(v.args[0], ast.Constant):
        return False, 'computed rate'
    for x in v.args[1:]:
        if isinstance(x, ast.Name) and x.id in params:
            continue
        if isinstance(x, ast.Constant):
            continue
        return False, 'pre-processed argument (%s)' % ast.unparse(x)[:40]
    return True, kind


def _ctor_targets():
    """-> (targets [(class, method, kind, own)], excluded [(class, method,
    reason)]) over sc3.synth.ugens.installed_ugens, inherited constructors
    included (judged by the source of the defining class)."""
    S = _sc3()
    targets, excluded = [], []
    for name in sorted(S['reg']):
        cls = S['reg'][name]
        if not (isinstance(cls, type) and issubclass(cls, S['ugn'].SynthObject)):
            continue
        for m in CTORS:
            if not hasattr(cls, m):
                continue
            owner = next(k for k in cls.__mro__ if m in k.__dict__)
            fn = owner.__dict__[m]
            fn = getattr(fn, '__func__', fn)
            ok, why = _scan_func(fn)
            if ok:
                targets.append((name, m, why, owner is cls))
            else:
                excluded.append((name, m, why))
    return targets, excluded


def _ctor_signature(name, m):
    S = _sc3()
    method = getattr(S['reg'][name], m)
    ps = list(inspect.signature(method).parameters.values())
    empty = inspect.Parameter.empty
    first = [(p.name, p.default is not empty) for p in ps[:3]]
    fill = [p.name for p in ps[3:] if p.default is empty]
    return method, first, fill


def _ctor_case(name, m, kind, shapes, alpha):
    """One constructor case -> (status, what, observed, expected)."""
    method, first, fill = _ctor_signature(name, m)

    def mkargs():
        kw = {}
        for j, ((p, _), s) in enumerate(zip(first, shapes)):
            if s != 'om':
                kw[p] = _mk(s, j, alpha, name, p)
        for j, p in enumerate(fill):
            kw[p] = _mk('s', 5 + j, alpha, name, p)
        return kw

    any_list = any(s in LISTY for s in shapes)
    if any_list:
        real = _observe(mkargs, lambda kw: method(**kw))
        ref = _observe(mkargs, lambda kw: E.mn(method, [], kw))
        return _judge(real, ref, True, compare_value=(kind == 'return'))
    # no list anywhere: only "tuples are opaque" can be observed - the call
    # with tuples must create as many units, and return the same kind of
    # value, as the call with scalars in their place.
    if 't' not in shapes:
        return ('ok', None, None, None)

    def mkscalar():
        kw = mkargs()
        return {k: (v[0] if isinstance(v, tuple) else v) for k, v in kw.items()}
    real = _observe(mkargs, lambda kw: method(**kw))
    ref = _observe(mkscalar, lambda kw: method(**kw))
    if ref[0] is not None or real[0] is not None:
        return ('undef', None, None, None)
    if len(real[2]) != len(ref[2]) or real[4] != ref[4] \
            or (real[4] and len(real[1][1]) != len(ref[1][1])):
        return ('viol', 'a tuple argument was expanded',
                '%d units, list=%s' % (len(real[2]), real[4]),
                '%d units, list=%s' % (len(ref[2]), ref[4]))
    return ('ok', None, None, None)


def _ctor_cases(name, m, tier, rng_seed):
    """Shape tuples for one constructor (deterministic)."""
    import random
    _, first, _ = _ctor_signature(name, m)
    shapes = SHAPES_THOROUGH if tier == 'thorough' else SHAPES_QUICK
    alphas = ('int', 'ar', 'kr', 'mix') if tier == 'thorough' else ('int', 'ar')
    opts = [[s for s in shapes if s != 'om' or has_default]
            for (_, has_default) in first]
    combos = list(itertools.product(*opts)) if opts else [()]
    # smallest first: fewer/shorter lists first
    weight = {'om': 0, 's': 0, 't': 1, 'l1': 2, 'l2': 3, 'cl': 3, 'l3': 4,
              'n': 5, 'l4': 5, 'clcl': 6, 'n2': 7}
    combos.sort(key=lambda c: (sum(weight[s] for s in c), c))
    if tier == 'thorough':
        return [(c, a) for c in combos for a in alphas]
    # quick: the whole grid with int atoms, every third shape tuple (a class
    # dependent third) also with audio-rate unit atoms
    off = sum(map(ord, name + m)) % 3
    return [(c, a) for i, c in enumerate(combos) for a in alphas
            if a == 'int' or i % 3 == off]


def _ctor_worker(job):
    name, m, kind, tier, seed = job
    _sc3()
    n = undef = distinct = 0
    viols, samples = [], []
    for shapes, alpha in _ctor_cases(name, m, tier, seed):
        st, what, obs, exp = _ctor_case(name, m, kind, shapes, alpha)
        n += 1
        if st == 'undef':
            undef += 1
            continue
        if any(s in LISTY for s in shapes) or 't' in shapes:
            distinct += 1
            if len(samples) < 1 and sum(s in LISTY for s in shapes) >= 2:
                samples.append({'class': name, 'method': m,
                                'shapes': list(shapes), 'atoms': alpha})
        if st == 'viol' and len(viols) < 3:
            viols.append({'class': name, 'method': m, 'kind': kind,
                          'shapes': list(shapes), 'atoms': alpha,
                          'what': what, 'observed': obs, 'expected': exp})
    return (name, m, n, undef, distinct, viols, samples)


def _report_ctor(rep, v):
    rep.violation(
        obligation='C03.ctor',
        what='%s.%s(%s) [%s atoms]: %s' % (v['class'], v['method'],
                                           ', '.join(v['shapes']), v['atoms'],
                                           v['what']),
        input={'class': v['class'], 'method': v['method'],
               'shapes': v['shapes'], 'atoms': v['atoms']},
        observed=v['observed'], expected=v['expected'],
        key='C03.ctor:%s.%s' % (v['class'], v['method']),
        replay={'func': 'ctor', 'args': {
            'class': v['class'], 'method': v['method'], 'kind': v['kind'],
            'shapes': v['shapes'], 'atoms': v['atoms']}})


def check_ctor(rep, pool):
    targets, excluded = _ctor_targets()
    jobs = [(n, m, k, rep.tier, rep.seed) for (n, m, k, _) in targets]
    results = list(pool.map(_ctor_worker, jobs, chunksize=4))
    n = undef = distinct = 0
    samples, dead = [], []
    per_class = {}
    for (name, m, nn, uu, dd, viols, smp) in results:
        n += nn
        undef += uu
        distinct += dd
        per_class[name] = per_class.get(name, 0) + dd
        if len(samples) < 5:
            samples.extend(smp)
        for v in viols:
            _report_ctor(rep, v)
    noparam = sorted(set(n for (n, m, k, _) in targets
                         if not _ctor_signature(n, m)[1]))
    dead = sorted(c for c, d in per_class.items()
                  if d == 0 and c not in noparam)
    if noparam:
        rep.note('ctor: constructors without parameters (nothing to expand, '
                 'one trivial call each): ' + ', '.join(noparam))
    own = sum(1 for t in targets if t[3])
    reasons = {}
    for (c, m, why) in excluded:
        reasons.setdefault(why.split(' (')[0], []).append('%s.%s' % (c, m))
    rep.note('ctor: %d constructor methods of %d classes delegate directly to '
             '_multi_new (%d defined in the class itself, %d inherited); '
             '%d constructor methods excluded: %s'
             % (len(targets), len(per_class), own, len(targets) - own,
                len(excluded),
                '; '.join('%s: %s' % (k, ', '.join(v))
                          for k, v in sorted(reasons.items()))))
    if dead:
        rep.note('ctor: classes for which every list-shaped case was undefined '
                 '(the single-channel call itself raises for the test atoms): '
                 + ', '.join(dead))
    rep.bounded(
        name='ctor', function='sc3.synth.ugen.SynthObject._multi_new via every '
        'directly delegating constructor in sc3.synth.ugens.installed_ugens',
        bound='%d constructors x shapes %s^min(3,arity) for the first 3 '
              'parameters (further required parameters scalar, optional ones '
              'default) x atom alphabets %s'
              % (len(targets),
                 list(SHAPES_THOROUGH if rep.tier == 'thorough' else SHAPES_QUICK),
                 ['int', 'ar', 'kr', 'mix'] if rep.tier == 'thorough'
                 else ['int (all)', 'ar (every 3rd shape tuple)']),
        evaluations=n, distinct_nontrivial=distinct,
        rule='a case is one (constructor, shape tuple, alphabet); non-trivial '
             '= at least one list/ChannelList/tuple argument and the '
             'single-channel reference call is defined (%d cases undefined and '
             'skipped)' % undef,
        samples=samples, exhaustive=True,
        extra={'undefined': undef, 'constructors': len(targets),
               'classes': len(per_class), 'excluded_methods': len(excluded)})


# --------------------------------------------------------------------------
# (b) operators of AbstractObject on ChannelList
# --------------------------------------------------------------------------

def _abs_ops():
    """-> (unary [name], binary [name]) of AbstractObject (by signature)."""
    aob = _sc3()['aob']
    un, bi = [], []
    for name, fn in vars(aob.AbstractObject).items():
        if not inspect.isfunction(fn):
            continue
        if name.startswith('_compose') or name.startswith('_rcompose') \
                or name == '__hash__':
            continue
        k = len(inspect.signature(fn).parameters) - 1
        if k == 0:
            un.append(name)
        elif k == 1:
            bi.append(name)
    return un, bi


SYNTAX_BIN = ('add', 'sub', 'mul', 'truediv', 'floordiv', 'mod', 'pow',
              'lshift', 'rshift', 'and_', 'or_', 'xor', 'lt', 'le', 'eq', 'ne',
              'gt', 'ge')
SYNTAX_UN = ('neg', 'pos', 'abs', 'invert')

RECV = ('r2', 'r1', 'r3', 'rn', 'rn2', 'rcl', 'rmix')
OTHER = ('num', 'ugen', 'l2', 'l3', 'lu', 'cl', 'clu3', 'n', 'n2', 'n3', 'clcl')


def _recv(kind, rate):
    S = _sc3()
    CL, DC = S['CL'], S['DC']
    mk = DC.ar if rate == 'ar' else DC.kr
    a = lambda k: mk(101 + k)
    if kind == 'r1':
        return CL([a(0)])
    if kind == 'r2':
        return CL([a(0), a(1)])
    if kind == 'r3':
        return CL([a(0), a(1), a(2)])
    if kind == 'rn':
        return CL([[a(0), a(1)], a(2)])
    if kind == 'rn2':
        return CL([a(0), [a(1), [a(2), a(3)]]])
    if kind == 'rcl':
        return CL([CL([a(0), a(1)]), a(2)])
    if kind == 'rmix':
        # channels of different rates: each expanded unit must get the rate the
        # single call on that channel gives, not one rate for the whole list
        return CL([DC.ar(101), DC.kr(102), DC.ar(103)])
    raise ValueError(kind)


def _other(kind):
    S = _sc3()
    CL, DC = S['CL'], S['DC']
    u = lambda k: DC.kr(201 + k)
    if kind == 'num':
        return 3
    if kind == 'ugen':
        return u(0)
    if kind == 'l2':
        return [3, 4]
    if kind == 'l3':
        return [3, 4, 5]
    if kind == 'lu':
        return [u(0), 4]
    if kind == 'cl':
        return CL([3, 4])
    if kind == 'clu3':
        return CL([u(0), u(1), 5])
    if kind == 'n':
        return [[3, 4], 5]
    if kind == 'n2':
        return [3, [4, 5, 6]]
    if kind == 'n3':
        return [[u(0), 4], [5]]
    if kind == 'clcl':
        return CL([CL([3, 4]), 5])
    raise ValueError(kind)


def _op_case(mode, name, recv, rate, other):
    """mode: 'un' method, 'bin' method, 'syn-l' (CL op other), 'syn-r'
    (other op CL), 'syn-un'."""
    if mode == 'un':
        mkargs = lambda: [_recv(recv, rate)]
        real_call = lambda a: getattr(a[0], name)()
        leaf = lambda x: getattr(x, name)()
    elif mode == 'bin':
        mkargs = lambda: [_recv(recv, rate), _other(other)]
        real_call = lambda a: getattr(a[0], name)(a[1])
        leaf = lambda x, y: getattr(x, name)(y)
    elif mode == 'syn-un':
        f = getattr(operator, name)
        mkargs = lambda: [_recv(recv, rate)]
        real_call = lambda a: f(a[0])
        leaf = f
    elif mode == 'syn-l':
        f = getattr(operator, name)
        mkargs = lambda: [_recv(recv, rate), _other(other)]
        real_call = lambda a: f(a[0], a[1])
        leaf = f
    elif mode == 'syn-r':
        f = getattr(operator, name)
        mkargs = lambda: [_other(other), _recv(recv, rate)]
        real_call = lambda a: f(a[0], a[1])
        leaf = f
    else:
        raise ValueError(mode)
    real = _observe(mkargs, real_call)
    ref = _observe(mkargs, lambda a: E.mn(leaf, a))
    return _judge(real, ref, True)


def _op_jobs(tier):
    un, bi = _abs_ops()
    rates = ('kr', 'ar') if tier == 'thorough' else ('kr',)
    recvs = RECV
    jobs = []
    for name in un:
        jobs.append(('un', name, recvs, rates, (None,)))
    for name in bi:
        jobs.append(('bin', name, recvs, rates, OTHER))
    for name in SYNTAX_UN:
        jobs.append(('syn-un', name, recvs, rates, (None,)))
    for name in SYNTAX_BIN:
        jobs.append(('syn-l', name, recvs, rates, OTHER))
        jobs.append(('syn-r', name, recvs, rates, OTHER))
    return jobs


def _op_worker(job):
    mode, name, recvs, rates, others = job
    _sc3()
    n = undef = distinct = 0
    viols, samples = [], []
    for rate in rates:
        for recv in recvs:
            for other in others:
                st, what, obs, exp = _op_case(mode, name, recv, rate, other)
                n += 1
                if st == 'undef':
                    undef += 1
                    continue
                distinct += 1
                if not samples and other in ('n2', 'lu'):
                    samples.append({'mode': mode, 'op': name, 'recv': recv,
                                    'rate': rate, 'other': other})
                if st == 'viol' and len(viols) < 3:
                    viols.append({'mode': mode, 'op': name, 'recv': recv,
                                  'rate': rate, 'other': other, 'what': what,
                                  'observed': obs, 'expected': exp})
    return (mode, name, n, undef, distinct, viols, samples)


def _report_op(rep, v):
    rep.violation(
        obligation='C03.operator',
        what='%s %s on ChannelList %s (%s) with operand %s: %s'
             % (v['mode'], v['op'], v['recv'], v['rate'], v['other'], v['what']),
        input={k: v[k] for k in ('mode', 'op', 'recv', 'rate', 'other')},
        observed=v['observed'], expected=v['expected'],
        key='C03.operator:%s' % v['op'],
        replay={'func': 'operator',
                'args': {k: v[k] for k in ('mode', 'op', 'recv', 'rate', 'other')}})


def check_operators(rep, pool):
    jobs = _op_jobs(rep.tier)
    results = list(pool.map(_op_worker, jobs, chunksize=4))
    n = undef = distinct = 0
    samples, dead = [], []
    for (mode, name, nn, uu, dd, viols, smp) in results:
        n += nn
        undef += uu
        distinct += dd
        if dd == 0:
            dead.append('%s:%s' % (mode, name))
        if len(samples) < 5:
            samples.extend(smp)
        for v in viols:
            _report_op(rep, v)
    un, bi = _abs_ops()
    if dead:
        rep.note('operators: undefined for unit generators themselves (the '
                 'leaf operation raises), hence nothing to expand: '
                 + ', '.join(sorted(dead)))
    rep.note('operators: tuple operands are left out - sc3\'s list algebra '
             'deliberately treats tuples as sequences (tests/test_multichannel) '
             'and a tuple operand of a unit-generator operator has no meaning; '
             'inner levels of a nested result may be plain lists (only the '
             'outermost container is required to be a ChannelList).')
    rep.bounded(
        name='operators', function='sc3.base.absobject.AbstractObject operators '
        'on sc3.synth.ugen.ChannelList (AbstractSequence._compose_*/list_*op)',
        bound='%d unary + %d binary operator methods, python syntax for %d '
              'binary (both operand orders) and %d unary operators x receivers '
              '%s x operands %s' % (len(un), len(bi), len(SYNTAX_BIN),
                                   len(SYNTAX_UN), list(RECV), list(OTHER)),
        evaluations=n, distinct_nontrivial=distinct,
        rule='case = (operator, receiver shape, operand shape); non-trivial = '
             'the leaf operation is defined (%d undefined)' % undef,
        samples=samples, exhaustive=True, extra={'undefined': undef})


# --------------------------------------------------------------------------
# (b') ChannelList convenience methods
# --------------------------------------------------------------------------

CHM_EXCLUDED = {
    'dup': 'collection method: duplicates the whole list (as sclang Array:dup)',
    'sum': 'collection method: reduces the list',
}
MODE_PARAMS = {'clip': ('minmax', 'min', 'max', None),
               'type': ('minmax', 'min', 'max', None)}
NUM_SHAPES = ('s', 'u', 'l2', 'l3', 'cl', 'lu', 'l1', 'n')
CHM_RECV = ('r2', 'r1', 'r3', 'rcl', 'rn', 'rn2', 'rmix')
CHM_NESTED = ('rn', 'rn2')


def _chm_methods():
    CL = _sc3()['CL']
    out = []
    for name, fn in vars(CL).items():
        if name.startswith('_') or not inspect.isfunction(fn):
            continue
        if name in CHM_EXCLUDED:
            continue
        ps = [(p.name, p.default) for p in
              list(inspect.signature(fn).parameters.values())[1:]]
        out.append((name, ps))
    return out


def _chm_value(shape, j):
    S = _sc3()
    CL, DC = S['CL'], S['DC']
    b = 2 + 5 * j
    u = lambda k: DC.kr(301 + 10 * j + k)
    if shape == 's':
        return b + 0.5
    if shape == 'u':
        return u(0)
    if shape == 'l1':
        return [b]
    if shape == 'l2':
        return [b, b + 1]
    if shape == 'l3':
        return [b, b + 1.5, b + 2]
    if shape == 'cl':
        return CL([b + 1, b])
    if shape == 'lu':
        return [u(0), b]
    if shape == 'n':
        return [[b, b + 1], b + 2]
    raise ValueError(shape)


def _chm_case(name, recv, rate, spec):
    """spec: list of (param, kind, payload): kind 'shape' (payload a shape
    name), 'const' (payload a literal), 'omit'."""
    def mkargs():
        kw = {}
        for j, (p, kind, payload) in enumerate(spec):
            if kind == 'shape':
                kw[p] = _chm_value(payload, j)
            elif kind == 'const':
                kw[p] = payload
        return [_recv(recv, rate), kw]

    def real_call(a):
        return getattr(a[0], name)(**a[1])

    def ref_call(a):
        # The law, recursively over the *receiver* (a nested list element of a
        # channel list is again a channel list: "recursively for nested
        # lists").  Each leaf is whatever the same method of the receiver's
        # unit generator returns for the i-th (wrapped) elements of the list
        # arguments - the real single-unit call, which may itself expand, or
        # raise (then the case is undefined).
        keys = list(a[1].keys())

        def rec(recv, vals):
            rows = E.one_level([recv] + vals)
            out = []
            for r in rows:
                if isinstance(r[0], list):
                    out.append(rec(r[0], r[1:]))
                else:
                    out.append(getattr(r[0], name)(**dict(zip(keys, r[1:]))))
            return out
        return rec(a[0], [a[1][k] for k in keys])
    real = _observe(mkargs, real_call)
    ref = _observe(mkargs, ref_call)
    # poll hands its receiver back unchanged (a pass-through for chaining, as
    # in sclang): only the units it creates are subject to the law.
    return _judge(real, ref, True, compare_value=(name != 'poll'))


def _chm_specs(name, ps, tier, rng):
    """Yield (variant, spec) - variant 'grid' or 'defaults'."""
    num = [p for (p, d) in ps if p not in MODE_PARAMS and p != 'label']
    specs = []

    def base(p, d, shape_of):
        if p in MODE_PARAMS:
            return (p, 'omit', None)
        if p == 'label':
            return (p, 'const', 'lbl')
        return (p, 'shape', shape_of[p])
    limit = 2500 if tier == 'thorough' else 220
    total = len(NUM_SHAPES) ** len(num)
    if total <= limit:
        combos = list(itertools.product(NUM_SHAPES, repeat=len(num)))
    else:
        combos = [tuple('s' for _ in num)]
        for i in range(len(num)):          # one list per position
            for s in NUM_SHAPES[1:]:
                combos.append(tuple(s if k == i else 's'
                                    for k in range(len(num))))
        seen = set(combos)
        while len(combos) < limit:
            c = tuple(rng.choice(NUM_SHAPES) for _ in num)
            if c not in seen:
                seen.add(c)
                combos.append(c)
    mode_cycle = 0
    for c in combos:
        shape_of = dict(zip(num, c))
        spec = [base(p, d, shape_of) for (p, d) in ps]
        # rotate the mode strings through the cases
        for i, (p, d) in enumerate(ps):
            if p in MODE_PARAMS:
                vals = MODE_PARAMS[p]
                k = mode_cycle % (len(vals) + 1)
                mode_cycle += 1
                if k < len(vals):
                    spec[i] = (p, 'const', vals[k])
        specs.append(('grid', spec))
    # defaults: every subset-by-one and all of the optional parameters omitted
    optional = [p for (p, d) in ps if d is not inspect.Parameter.empty
                and p != 'label']
    shape_of = {p: 'l2' if i == 0 else 's' for i, p in enumerate(num)}
    for omit in [set(optional)] + [{p} for p in optional]:
        for first in ('l2', 's'):
            so = dict(shape_of)
            if num:
                so[num[0]] = first
            spec = []
            for (p, d) in ps:
                if p in omit:
                    spec.append((p, 'omit', None))
                else:
                    spec.append(base(p, d, so) if p not in MODE_PARAMS
                                else (p, 'const', 'minmax'))
            specs.append(('defaults', spec))
    return specs


def _chm_classify(name, ps, recv, rate, spec, variant):
    """Which input class does a failing case belong to (for the key)?
    'nested-list': only the nested receiver fails (the flat receiver with the
    same arguments does not); 'defaults': only the omitted positions matter
    (filling them with ChannelList's own default values repairs the case);
    else 'grid'."""
    flat = recv
    if recv in CHM_NESTED:
        flat = 'r3'
        if _chm_case(name, flat, rate, spec)[0] != 'viol':
            return 'nested-list'
    if variant == 'defaults':
        dflt = dict(ps)
        full = [(p, 'const', dflt[p]) if k == 'omit' else (p, k, v)
                for (p, k, v) in spec]
        if _chm_case(name, flat, rate, full)[0] != 'viol':
            return 'defaults'
    return 'grid'


def _chm_worker(job):
    import random
    name, ps, tier, seed = job
    _sc3()
    rng = random.Random('%s/%s' % (seed, name))
    rates = ('kr', 'ar')
    n = undef = distinct = 0
    viols, samples = [], []
    specs = _chm_specs(name, ps, tier, rng)
    for variant, spec in specs:
        for recv in CHM_RECV:
            for rate in rates:
                if tier != 'thorough' and variant == 'grid' \
                        and (recv, rate) not in (('r2', 'kr'), ('r3', 'ar'),
                                                 ('r1', 'kr'), ('rcl', 'kr'),
                                                 ('rn', 'kr'), ('rn2', 'ar'),
                                                 ('rmix', 'kr')):
                    continue
                st, what, obs, exp = _chm_case(name, recv, rate, spec)
                n += 1
                if st == 'undef':
                    undef += 1
                    continue
                distinct += 1
                d = {'method': name, 'recv': recv, 'rate': rate,
                     'args': [list(s) for s in spec], 'variant': variant}
                if not samples and variant == 'grid' and n > 20:
                    samples.append(d)
                if st == 'viol':
                    d['variant'] = _chm_classify(name, ps, recv, rate, spec,
                                                 variant)
                    k = sum(1 for w in viols if w['variant'] == d['variant'])
                    if k < 3:
                        d.update(what=what, observed=obs, expected=exp)
                        viols.append(d)
    return (name, n, undef, distinct, viols, samples)


def _report_chm(rep, v):
    key = 'C03.chlist-method:%s' % v['method']
    if v['variant'] == 'defaults':
        key += ':defaults'
    elif v['variant'] == 'nested-list':
        key = 'C03.chlist-method:nested-list'
    shown = ', '.join('%s=%s' % (p, 'omitted' if k == 'omit' else payload)
                      for (p, k, payload) in v['args'])
    rep.violation(
        obligation='C03.chlist-method',
        what='ChannelList(%s,%s).%s(%s): %s' % (v['recv'], v['rate'],
                                                v['method'], shown, v['what']),
        input={k: v[k] for k in ('method', 'recv', 'rate', 'args', 'variant')},
        observed=v['observed'], expected=v['expected'], key=key,
        replay={'func': 'chlist-method',
                'args': {k: v[k] for k in ('method', 'recv', 'rate', 'args',
                                           'variant')}})


def check_chlist_methods(rep, pool):
    methods = _chm_methods()
    jobs = [(name, ps, rep.tier, rep.seed) for (name, ps) in methods]
    results = list(pool.map(_chm_worker, jobs, chunksize=1))
    n = undef = distinct = 0
    samples, dead = [], []
    for (name, nn, uu, dd, viols, smp) in results:
        n += nn
        undef += uu
        distinct += dd
        if dd == 0:
            dead.append(name)
        if len(samples) < 5:
            samples.extend(smp)
        for v in viols:
            _report_chm(rep, v)
    rep.note('chlist-methods: excluded ' + '; '.join(
        '%s (%s)' % kv for kv in sorted(CHM_EXCLUDED.items()))
        + '. poll/dpoll are always given an explicit label (the default label '
        'text of ChannelList.poll deliberately differs from UGen.poll).')
    rep.note('chlist-methods: the law is applied recursively over the receiver '
             '(nested list elements are channel lists again) and one level at a '
             'time over the arguments, with the real single-unit method at the '
             'leaves; where that leaf call raises (e.g. UGen.range given a plain '
             'list: python lists have no arithmetic) the case is undefined and '
             'skipped, so nested *arguments* are demanded only where the '
             'single-unit method itself accepts lists.')
    if dead:
        rep.note('chlist-methods: no defined case (the single-unit method '
                 'raises for every input): ' + ', '.join(sorted(dead)))
    rep.bounded(
        name='chlist-methods', function='sc3.synth.ugen.ChannelList.%s'
        % '/'.join(m for m, _ in methods),
        bound='%d methods x receivers %s x {kr, ar} x argument shapes %s per '
              'numeric parameter (exhaustive when <= %d combinations, else '
              'single-position + seeded random), mode strings rotated, plus '
              'default-filled variants' % (len(methods), list(CHM_RECV),
                                           list(NUM_SHAPES),
                                           2500 if rep.tier == 'thorough' else 220),
        evaluations=n, distinct_nontrivial=distinct,
        rule='case = (method, receiver, argument spec); non-trivial = inner '
             'single-unit calls defined (%d undefined)' % undef,
        samples=samples, exhaustive=False, extra={'undefined': undef})


# --------------------------------------------------------------------------
# (c) output units
# --------------------------------------------------------------------------

OUT_CLASSES = (('Out', 1), ('ReplaceOut', 1), ('OffsetOut', 1), ('XOut', 2),
               ('LocalOut', 0))
BUS_SHAPES = ('b0', 'bk', 'bl', 'bn')
CHAN_SHAPES = ('x', 'z', 'lx', 'lxy', 'lxzy', 'lzz', 'lfx', 'lxc', 'clxz',
               'nxyz', 'nxzz', 'nx_yzz', 'clcl', 'l5')


def _out_values(nfixed, bus_shape, chan_shape, rate):
    """-> (fixed args list, output value, atoms dict id->label)."""
    S = _sc3()
    CL, DC = S['CL'], S['DC']
    mk = DC.ar if rate == 'ar' else DC.kr
    at = {}

    def x(k):
        u = mk(500 + k)
        at[id(u)] = ('atom', 500 + k)
        return u

    def kbus(k):
        u = DC.kr(40 + k)
        at[id(u)] = ('atom', 40 + k)
        return u
    fixed = []
    if nfixed >= 1:
        fixed.append({'b0': 0, 'bk': None, 'bl': [0, 8],
                      'bn': [[0, 8], 16]}[bus_shape])
        if bus_shape == 'bk':
            fixed[0] = kbus(0)
    if nfixed >= 2:
        fixed.append({'b0': 0.5, 'bk': None, 'bl': [0.25, 0.5, 0.75],
                      'bn': 0.5}[bus_shape])
        if bus_shape == 'bk':
            fixed[1] = kbus(1)
    out = {
        'x': lambda: x(0),
        'z': lambda: 0,
        'lx': lambda: [x(0)],
        'lxy': lambda: [x(0), x(1)],
        'lxzy': lambda: [x(0), 0, x(1)],
        'lzz': lambda: [0, 0.0],
        'lfx': lambda: [0.0, x(0)],
        'lxc': lambda: [x(0), 2],
        'clxz': lambda: CL([x(0), 0]),
        'nxyz': lambda: [[x(0), x(1)], x(2)],
        'nxzz': lambda: [[x(0), 0], 0],
        'nx_yzz': lambda: [x(0), [x(1), 0, x(2)]],
        'clcl': lambda: CL([CL([x(0), x(1)]), 0]),
        'l5': lambda: [x(0), x(1), 0, x(2), x(3)],
    }[chan_shape]()
    return fixed, out, at


def _is_num(v):
    return isinstance(v, (int, float)) and not isinstance(v, bool)


def _silence_obj(v):
    """An audio-rate unit (or its output) all of whose inputs are literal 0."""
    ugn = _sc3()['ugn']
    if isinstance(v, ugn.OutputProxy):
        if v.rate != 'audio':
            return False
        v = v.source_ugen
    if not isinstance(v, ugn.SynthObject) or v.rate != 'audio':
        return False
    return all(_is_num(i) and i == 0 for i in v.inputs)


def _out_case_objects(cname, nfixed, rate, bus_shape, chan_shape):
    S = _sc3()
    cls = S['reg'][cname]
    ctor = getattr(cls, rate)

    def body():
        fixed, out, at = _out_values(nfixed, bus_shape, chan_shape, rate)
        chans = out if isinstance(out, list) else [out]
        leaves = []
        E.mn(lambda *a: leaves.append(a), list(fixed) + list(chans))
        n0 = len(_children())
        try:
            ctor(*fixed, out)
        except Exception as e:
            return ('viol', 'raises %s: %s' % (type(e).__name__, e), None, None)
        created = [u for u in _children()[n0:] if u is not None]
        mine = [u for u in created if type(u) is cls]
        rest = [u for u in created if type(u) is not cls]
        if len(mine) != len(leaves):
            return ('viol', '%d %s units created, one per combination is %d'
                    % (len(mine), cname, len(leaves)), len(mine), len(leaves))
        bad = [type(u).__name__ for u in rest if not _silence_obj(u)]
        if bad:
            return ('viol', 'extra units that are not silence: %s' % bad,
                    bad, [])

        def same(v, w, chan_pos):
            # v observed input, w expected leaf value
            if _is_num(w):
                if chan_pos and w == 0:
                    if rate == 'ar':
                        return _silence_obj(v)
                    return (_is_num(v) and v == 0) or _silence_obj(v)
                return _is_num(v) and float(v) == float(w)
            return v is w
        left = list(mine)
        for leaf in leaves:
            hit = None
            for u in left:
                if len(u.inputs) == len(leaf) and all(
                        same(v, w, i >= nfixed)
                        for i, (v, w) in enumerate(zip(u.inputs, leaf))):
                    hit = u
                    break
            if hit is None:
                lab = [at.get(id(w), w if _is_num(w) else '?') for w in leaf]
                return ('viol', 'no %s unit with inputs %s (zeros as '
                        'audio-rate silence)' % (cname, lab),
                        [_short(u.inputs, 160) for u in mine], lab)
            left.remove(hit)
            if rate == 'ar' and hit.rate != 'audio':
                return ('viol', '%s.ar unit has rate %s' % (cname, hit.rate),
                        hit.rate, 'audio')
        return ('ok', None, None, None)
    return _in_build(body)[0]


def _out_case_bytes(cname, nfixed, bus_shape, chan_shape):
    """Finished build of the ar case, observed through the bytes."""
    S = _sc3()
    cls = S['reg'][cname]
    info = {}

    def body():
        fixed, out, at = _out_values(nfixed, bus_shape, chan_shape, 'ar')
        chans = out if isinstance(out, list) else [out]
        leaves = []
        E.mn(lambda *a: leaves.append(a), list(fixed) + list(chans))
        info['leaves'] = [[at.get(id(w), ('num', float(w)) if _is_num(w) else None)
                           for w in leaf] for leaf in leaves]
        cls.ar(*fixed, out)
    try:
        _, sd = _in_build(body, finish=True, name='c03out')
        mv = sd.as_bytes()
        data = bytes(mv)
        if isinstance(mv, memoryview):
            mv.release()    # else CPython may print a SystemError at gc time
    except Exception as e:
        return ('viol', 'build raises %s: %s' % (type(e).__name__, e), None, None)
    d = scgf.parse(data)[0]
    mine = [u for u in d.ugens if u.name == cname]
    leaves = info['leaves']
    if len(mine) != len(leaves):
        return ('viol', '%d %s units in the definition, one per combination is '
                '%d' % (len(mine), cname, len(leaves)), len(mine), len(leaves))

    def describe(w):
        a, b = w
        if a == -1:
            return ('num', d.constants[b])
        u = d.ugens[a]
        consts = [d.constants[j] for (i, j) in u.inputs if i == -1]
        allconst = len(consts) == len(u.inputs)
        if u.rate == 2 and u.outputs[b] == 2 and allconst \
                and all(c == 0.0 for c in consts):
            return ('silence',)
        if u.name == 'DC' and allconst and len(consts) == 1:
            return ('atom', int(consts[0]))
        return ('unit', u.name)
    got = [[describe(w) for w in u.inputs] for u in mine]
    want = []
    for leaf in leaves:
        row = []
        for i, w in enumerate(leaf):
            if w[0] == 'num' and w[1] == 0.0 and i >= nfixed:
                row.append(('silence',))
            elif w[0] == 'num':
                row.append(('num', scgf.f32(w[1])))
            else:
                row.append(('atom', w[1]))
        want.append(row)
    if sorted(map(repr, got)) != sorted(map(repr, want)):
        return ('viol', 'input wires of the %s units differ' % cname,
                got, want)
    bad = [u.rate for u in mine if u.rate != 2]
    if bad:
        return ('viol', '%s.ar unit not audio rate' % cname, bad, 2)
    return ('ok', None, None, None)


def _out_jobs():
    jobs = []
    S = _sc3()
    for cname, nfixed in OUT_CLASSES:
        cls = S['reg'][cname]
        for rate in ('ar', 'kr'):
            if cname == 'OffsetOut' and rate == 'kr':
                continue        # documented: not implemented
            if not hasattr(cls, rate):
                continue
            for b in (BUS_SHAPES if nfixed else ('b0',)):
                for c in CHAN_SHAPES:
                    jobs.append((cname, nfixed, rate, b, c))
    return jobs


def _out_run(job, via):
    cname, nfixed, rate, b, c = job
    if via == 'objects':
        return _out_case_objects(cname, nfixed, rate, b, c)
    return _out_case_bytes(cname, nfixed, b, c)


def check_out_units(rep):
    n = distinct = 0
    samples = []
    for job in _out_jobs():
        cname, nfixed, rate, b, c = job
        for via in ('objects', 'bytes'):
            if via == 'bytes' and (rate != 'ar' or c == 'lxc'):
                continue
            st, what, obs, exp = _out_run(job, via)
            n += 1
            distinct += 1
            if len(samples) < 4 and c in ('lxzy', 'nx_yzz') and b == 'bl':
                samples.append({'class': cname, 'rate': rate, 'bus': b,
                                'channels': c, 'via': via})
            if st == 'viol':
                rep.violation(
                    obligation='C03.out-units',
                    what='%s.%s(bus %s, channels %s) seen through %s: %s'
                         % (cname, rate, b, c, via, what),
                    input={'class': cname, 'rate': rate, 'bus': b,
                           'channels': c, 'via': via},
                    observed=obs, expected=exp,
                    key='C03.out-units:%s.%s' % (cname, rate),
                    replay={'func': 'out-units', 'args': {
                        'job': [cname, nfixed, rate, b, c], 'via': via}})
    rep.note('out-units: nested channel lists are demanded to expand by the '
             'same law (several units), not to be flattened; for .kr units '
             'zeros may stay constants; the unit rate of the .kr constructors '
             'is not part of this contract (LocalOut.kr builds an audio-rate '
             'unit on both trees - outside C03).')
    rep.bounded(
        name='out-units', function='sc3.synth.ugens.inout.Out/ReplaceOut/'
        'OffsetOut/XOut/LocalOut .ar/.kr',
        bound='5 classes x {ar,kr} x bus shapes %s x channel shapes %s; ar '
              'cases also through the definition bytes' % (list(BUS_SHAPES),
                                                          list(CHAN_SHAPES)),
        evaluations=n, distinct_nontrivial=distinct,
        rule='case = (class, rate, bus shape, channel shape, observation)',
        samples=samples, exhaustive=True)


# --------------------------------------------------------------------------
# (d) list algebra helpers
# --------------------------------------------------------------------------

def _nested(depth, maxlen, vals):
    """All nested int lists (non-empty) up to depth/len over consecutive ints
    drawn from the iterator `vals` is not needed: leaves are numbered in
    order, so shapes are enumerated and leaves labelled 1,2,3.."""
    # shapes: a shape is 0 (leaf) or a tuple of shapes
    def shapes(d):
        if d == 0:
            return [0]
        sub = shapes(d - 1)
        out = [0]
        for n in range(1, maxlen + 1):
            for combo in itertools.product(sub, repeat=n):
                out.append(tuple(combo))
        return out
    res = []
    seen = set()
    for sh in shapes(depth):
        if sh == 0 or sh in seen:
            continue
        seen.add(sh)
        k = [vals]

        def fill(s):
            if s == 0:
                k[0] += 1
                return k[0]
            return [fill(t) for t in s]
        res.append(fill(sh))
    return res


def _plain(x):
    """Deep copy to plain lists (for comparison and JSON)."""
    if isinstance(x, list):
        return [_plain(i) for i in x]
    return x


def _same_lists(a, b):
    if isinstance(a, list) or isinstance(b, list):
        return (isinstance(a, list) and isinstance(b, list) and len(a) == len(b)
                and all(_same_lists(x, y) for x, y in zip(a, b)))
    return type(a) is type(b) and a == b


def check_list_algebra(rep):
    utl = _sc3()['utl']
    thorough = rep.tier == 'thorough'
    A = _nested(2, 3, 0)                      # depth<=2, len<=3: 39 lists
    B = _nested(2, 2, 100) + [[101, 102, 103], [[101, 102, 103], 104]]
    if thorough:
        A = _nested(3, 2, 0) + A
    scal = [7, -2, 0]
    n = 0
    distinct = set()
    samples = []

    def run(fname, args, real, ref):
        nonlocal n
        n += 1
        distinct.add((fname, repr(args)))
        try:
            want = ref()
        except ValueError:
            return
        try:
            got = real()
            exc = None
        except Exception as e:
            got, exc = None, '%s: %s' % (type(e).__name__, e)
        if exc is not None or not _same_lists(_plain(got), want):
            rep.violation(
                obligation='C03.list-algebra',
                what='utils.%s%s = %s, the wrap-and-zip reference gives %s'
                     % (fname, _short(tuple(args), 200),
                        exc or _short(_plain(got), 200), _short(want, 200)),
                input={'func': fname, 'args': args},
                observed=exc or _plain(got), expected=want,
                key='C03.list-algebra:%s' % fname,
                replay={'func': 'list-algebra',
                        'args': {'func': fname, 'args': args}})
        elif len(samples) < 5 and n % 997 == 0:
            samples.append({'func': fname, 'args': args, 'result': want})

    for a in A + scal:
        run('list_unop', [a], lambda: utl.list_unop(operator.neg, _plain(a)),
            lambda: E.deep_map(operator.neg, a))
        run('list_narop', [a, 3, 5],
            lambda: utl.list_narop(_madd, _plain(a), 3, 5),
            lambda: E.narop(_madd, a, 3, 5))
        for b in B + scal:
            run('list_binop', [a, b],
                lambda: utl.list_binop(operator.sub, _plain(a), _plain(b)),
                lambda: E.binop(operator.sub, a, b))
            run('list_binop', [b, a],
                lambda: utl.list_binop(operator.sub, _plain(b), _plain(a)),
                lambda: E.binop(operator.sub, b, a))
    for a in A:
        run('flat', [a], lambda: utl.flat(_plain(a)), lambda: E.flat(a))
        run('flop', [a], lambda: utl.flop(_plain(a)), lambda: E.flop(a))
        run('unbubble', [a], lambda: utl.unbubble(_plain(a)),
            lambda: E.unbubble(a))
        run('as_list', [a], lambda: utl.as_list(_plain(a)),
            lambda: E.as_list(a))
        for k in range(0, 8):
            run('wrap_extend', [a, k],
                lambda: utl.wrap_extend(_plain(a), k),
                lambda: E.wrap_extend(a, k))
        for b in B:
            run('reshape_like', [a, b],
                lambda: utl.reshape_like(_plain(a), _plain(b)),
                lambda: E.reshape_like(a, b))
            run('reshape_like', [b, a],
                lambda: utl.reshape_like(_plain(b), _plain(a)),
                lambda: E.reshape_like(b, a))
    for s in scal + [(1, 2), 'ab', 2.5]:
        run('as_list', [s], lambda: utl.as_list(s), lambda: E.as_list(s))
        run('unbubble', [s], lambda: utl.unbubble(s), lambda: E.unbubble(s))
    # flop over rows that mix scalars and lists of different lengths
    rows_alphabet = [1, [2], [3, 4], [5, 6, 7], [[8, 9], 10]]
    for k in (1, 2, 3) + ((4,) if thorough else ()):
        for rows in itertools.product(rows_alphabet, repeat=k):
            rows = list(rows)
            run('flop', [rows], lambda: utl.flop(_plain(rows)),
                lambda: E.flop(rows))
    rep.note('list-algebra: empty lists, None and tuples inside the operands '
             'are left out (the law does not define an empty channel array; '
             'sc3 treats tuples as sequences in list_*op by design; '
             'as_list(None) contradicts its own docstring); list_narop is '
             'driven with scalar extra operands only.')
    rep.bounded(
        name='list-algebra', function='sc3.base.utils.list_unop/list_binop/'
        'list_narop/flop/flat/reshape_like/wrap_extend/as_list/unbubble',
        bound='all nested int lists of depth<=%d and length<=%d (distinct '
              'leaves) x operands of depth<=2, length<=2 plus scalars'
              % ((3, 3) if thorough else (2, 3)),
        evaluations=n, distinct_nontrivial=len(distinct),
        rule='case = (helper, operands); distinct = set of (helper, operands)',
        samples=samples, exhaustive=True)


def _madd(x, a, b):
    return x * a + b


# --------------------------------------------------------------------------
# main / replay
# --------------------------------------------------------------------------

def _pool():
    ctx = multiprocessing.get_context('fork')
    return ProcessPoolExecutor(max_workers=16, mp_context=ctx)


def main(rep):
    _sc3()
    need_pool = any(wants(rep, k) for k in ('ctor', 'operators',
                                            'chlist-methods'))
    pool = _pool() if need_pool else None
    try:
        if wants(rep, 'ctor'):
            check_ctor(rep, pool)
        if wants(rep, 'operators'):
            check_operators(rep, pool)
        if wants(rep, 'chlist-methods'):
            check_chlist_methods(rep, pool)
    finally:
        if pool is not None:
            pool.shutdown()
    if wants(rep, 'out-units'):
        check_out_units(rep)
    if wants(rep, 'list-algebra'):
        check_list_algebra(rep)


def replay(case, rep):
    _sc3()
    r = case.get('replay') or {}
    func, a = r.get('func'), r.get('args') or {}
    if func == 'ctor':
        st, what, obs, exp = _ctor_case(a['class'], a['method'], a['kind'],
                                        tuple(a['shapes']), a['atoms'])
        if st == 'viol':
            _report_ctor(rep, dict(a, what=what, observed=obs, expected=exp))
    elif func == 'operator':
        st, what, obs, exp = _op_case(a['mode'], a['op'], a['recv'], a['rate'],
                                      a['other'])
        if st == 'viol':
            _report_op(rep, dict(a, what=what, observed=obs, expected=exp))
    elif func == 'chlist-method':
        spec = [tuple(s) for s in a['args']]
        st, what, obs, exp = _chm_case(a['method'], a['recv'], a['rate'], spec)
        if st == 'viol':
            _report_chm(rep, dict(a, what=what, observed=obs, expected=exp))
    elif func == 'out-units':
        st, what, obs, exp = _out_run(tuple(a['job']), a['via'])
        if st == 'viol':
            rep.violation(obligation='C03.out-units', what=what,
                          input=a, observed=obs, expected=exp,
                          key='C03.out-units:%s.%s' % (a['job'][0], a['job'][2]))
    elif func == 'list-algebra':
        utl = _sc3()['utl']
        f, args = a['func'], a['args']
        table = {
            'list_unop': (lambda x: utl.list_unop(operator.neg, x),
                          lambda x: E.deep_map(operator.neg, x)),
            'list_narop': (lambda x, p, q: utl.list_narop(_madd, x, p, q),
                           lambda x, p, q: E.narop(_madd, x, p, q)),
            'list_binop': (lambda x, y: utl.list_binop(operator.sub, x, y),
                           lambda x, y: E.binop(operator.sub, x, y)),
            'flat': (utl.flat, E.flat), 'flop': (utl.flop, E.flop),
            'unbubble': (utl.unbubble, E.unbubble),
            'as_list': (utl.as_list, E.as_list),
            'wrap_extend': (utl.wrap_extend, E.wrap_extend),
            'reshape_like': (utl.reshape_like, E.reshape_like),
        }
        real, ref = table[f]
        want = ref(*[_plain(x) for x in args])
        try:
            got = _plain(real(*[_plain(x) for x in args]))
        except Exception as e:
            got = '%s: %s' % (type(e).__name__, e)
        if not _same_lists(got, want):
            rep.violation(obligation='C03.list-algebra',
                          what='utils.%s%s = %s, reference %s'
                               % (f, _short(args), _short(got), _short(want)),
                          input=a, observed=got, expected=want,
                          key='C03.list-algebra:%s' % f)
    else:
        return None
    return not rep.violations


if __name__ == '__main__':
    driver_main('C03', main, replay)
