"""Contracts for the recursive OSC encoders (C06, C07): OscInterface._build_msg and
_build_bundle in sc3/base/_oscinterface.py - the structure of the encoding "nested to any depth".

The low-level builders (OscMessageBuilder / OscBundleBuilder) are ghost objects: add_arg /
add_content / array markers / build() are trace events.  The recursive calls are opaque calls
recorded with their arguments (the contract of the callee is this same contract: induction on the
nesting depth).  Per-argument obligations (loop invariants over the events of one pass):

_build_msg(send_time, [address, arg...]): the builder is made for the address; every argument, in
order, causes exactly one builder action, decided by the argument alone:
    None                                   add_arg(0)
    bool                                   add_arg(int(arg))
    []                                     add_arg(0)
    [str, ...]  (a message)                add_arg(_build_msg(send_time, arg).dgram)
    [number|None, list, ...] (a bundle)    add_arg(_build_bundle(send_time, arg).dgram)
    any other list                         ValueError, nothing added
    '[' / ']'                              array start / stop marker
    anything else                          add_arg(arg) unchanged
the SAME send_time goes into every recursive call (nested time tags are relative to one send
instant), nothing is cached between calls, and the result is builder.build().

_build_bundle(send_time, [time, element...]): the time tag is _get_timetag(send_time, time) (its
own contract: C07); every element, in order: a message -> add_content(_build_msg(send_time, el));
a bundle -> _check_subtime(time, el[0]) FIRST, then add_content(_build_bundle(send_time, el));
anything else -> ValueError; the result is builder.build().
"""
import ast
import z3
from vf.pyvc.spec import contract, Loop
from vf.pyvc.values import *
from vf.pyvc import values as VV
from vf.pyvc.engine import Raised, Unsupported

F = 'sc3/base/_oscinterface.py'
ARGS = z3.Array('arg_list.items', z3.IntSort(), VV.Any)
IS_OPEN = z3.Function('is_array_open', VV.Any, z3.BoolSort())
IS_CLOSE = z3.Function('is_array_close', VV.Any, z3.BoolSort())


def arglist_kind(eng, name):
    n = z3.Int('arg_list.len')
    return V('seq', extra={'len': n, 'facts': [n >= 1],
                           'get': (lambda eng_, i, st_: V('any', z3.Select(ARGS, i)))})


def h_construct(eng, f, args, kwargs, st, node):
    if f.k == 'class' and f.py in ('OscMessageBuilder', 'OscBundleBuilder'):
        b = V('obj', oid='builder', extra={'kind': f.py})
        st.trace.append(('builder', f.py, tuple(args)))
        return [(st, b)]
    return None


def h_getattr(eng, obj, name, st, node):
    if obj.k == 'module' and name in ('OscMessageBuilder', 'OscBundleBuilder'):
        return [(st, V('class', py=name))]
    if obj.k == 'module' and name == 'IMMEDIATELY':
        return [(st, V('obj', oid='IMMEDIATELY'))]
    if obj.k == 'obj' and obj.oid == 'builder':
        if name in ('add_arg', 'add_content', 'build'):
            def act(eng, args, kwargs, st, node, _n=name):
                st.trace.append((_n, tuple(args)))
                return [(st, V('obj', oid='built') if _n == 'build' else NONE)]
            return [(st, V('func', py=('spec', act)))]
        if name == 'args':
            return [(st, V('obj', oid='builder.args'))]
        if name in ('ARG_TYPE_ARRAY_START', 'ARG_TYPE_ARRAY_STOP'):
            return [(st, V('obj', oid=name))]
    if obj.k == 'obj' and obj.oid == 'builder.args' and name == 'append':
        def app(eng, args, kwargs, st, node):
            st.trace.append(('marker', args[0]))
            return [(st, NONE)]
        return [(st, V('func', py=('spec', app)))]
    if obj.k == 'obj' and obj.extra and 'encoded' in obj.extra and name == 'dgram':
        return [(st, V('obj', oid='dgram-of', extra={'of': obj}))]
    return None


def h_compare(eng, op, a, b, st, node):
    if isinstance(op, (ast.Eq, ast.NotEq)):
        for p, q in ((a, b), (b, a)):
            if p.k == 'any' and q.k == 'str' and q.py in ('[', ']'):
                r = (IS_OPEN if q.py == '[' else IS_CLOSE)(p.z)
                return z3.Not(r) if isinstance(op, ast.NotEq) else r
    return None


def recurse(name):
    def pol(eng, selfv, args, kwargs, st, node):
        r = V('obj', oid='%s!%d' % (name, next(eng.counter)), extra={'encoded': name})
        st.trace.append((name, tuple(args), r))
        return [(st, r)]
    return pol


def traced(name, result=None):
    def pol(eng, selfv, args, kwargs, st, node):
        r = result(eng) if result else NONE
        st.trace.append((name, tuple(args), r))
        return [(st, r)]
    return pol


def since_head(trace):
    idx = -1
    for i, e in enumerate(trace):
        if e[0] == 'loop-head':
            idx = i
    return trace[idx + 1:] if idx >= 0 else None


EV = ('add_arg', 'add_content', 'marker', 'rec-msg', 'rec-bundle', 'check-subtime', 'build', 'builder')
INT, FLOAT, STR, LIST, BOOL, NONE_T = (TAGS[k] for k in ('int', 'float', 'str', 'list', 'bool', 'none'))


def tag(x):
    return VV.tag_of(x)


def is_message(x):          # a list whose first element is a str
    return z3.And(tag(x) == LIST, VV.any_len(x) >= 1, tag(VV.any_item(x, 0)) == STR)


def is_bundle_in_msg(x):    # [number|None, list, ...]
    h = tag(VV.any_item(x, 0))
    return z3.And(tag(x) == LIST, VV.any_len(x) >= 2, z3.Or(h == INT, h == BOOL, h == FLOAT, h == NONE_T),
                  tag(VV.any_item(x, 1)) == LIST)


def msg_pass(c, L):
    ev = since_head(c.trace)
    if not ev:
        return z3.BoolVal(True)
    ev = [e for e in ev if e[0] in EV]
    a = z3.Select(ARGS, L.i)          # slice arg_list[1:]: pass i-1 handles element i
    st_ = c._params['send_time']

    def same_time(v):
        return v.k == st_.k and z3.eq(v.z, st_.z)
    if len(ev) == 1 and ev[0][0] == 'add_arg':
        v = ev[0][1][0]
        if v.k == 'int':                                      # add_arg(0) / add_arg(int(bool))
            zero = z3.Or(tag(a) == NONE_T, z3.And(tag(a) == LIST, VV.any_len(a) <= 0))      # None or []
            return z3.If(tag(a) == BOOL, v.z == z3.If(VV.any_bool(a), 1, 0), z3.And(zero, v.z == 0))
        if v.k in ('any', 'dyn'):                             # passed on unchanged
            return z3.And(v.z == a, tag(a) != NONE_T, tag(a) != BOOL, tag(a) != LIST,
                          z3.Not(IS_OPEN(a)), z3.Not(IS_CLOSE(a)))
        return z3.BoolVal(False)
    if len(ev) == 1 and ev[0][0] == 'marker':
        m = ev[0][1]
        ok = m.k == 'tuple' and len(m.items) == 2 and m.items[0].k == 'obj' and m.items[1].k == 'none'
        if not ok:
            return z3.BoolVal(False)
        which = m.items[0].oid
        return z3.And(tag(a) != NONE_T, tag(a) != BOOL, tag(a) != LIST,
                      z3.If(IS_OPEN(a), z3.BoolVal(which == 'ARG_TYPE_ARRAY_START'),
                            z3.And(IS_CLOSE(a), z3.BoolVal(which == 'ARG_TYPE_ARRAY_STOP'))))
    if len(ev) == 2 and ev[0][0] in ('rec-msg', 'rec-bundle') and ev[1][0] == 'add_arg':
        rec, add = ev
        v = add[1][0]
        ok = (len(rec[1]) == 2 and same_time(rec[1][0]) and rec[1][1].k in ('any', 'dyn')
              and v.k == 'obj' and v.oid == 'dgram-of' and v.extra['of'] is rec[2])     # the datagram of that very encoding
        if not ok:
            return z3.BoolVal(False)
        shape = is_message(a) if rec[0] == 'rec-msg' else z3.And(z3.Not(is_message(a)), is_bundle_in_msg(a))
        return z3.And(rec[1][1].z == a, shape)
    return z3.BoolVal(False)


def msg_post(c):
    t = [e for e in c.trace if e[0] in EV or e[0] == 'loop-head']
    if not t or t[0][0] != 'builder' or t[0][1] != 'OscMessageBuilder' or len(t[0][2]) != 1:
        return z3.BoolVal(False)
    addr = t[0][2][0]
    heads = [i for i, e in enumerate(t) if e[0] == 'loop-head']
    tail = [e for e in t[heads[-1]:] if e[0] != 'loop-head'] if heads else None
    ok = (addr.k == 'any' and tail is not None and len(tail) == 1 and tail[0][0] == 'build'
          and c.resultv.k == 'obj' and c.resultv.oid == 'built'
          and not [e for e in t[1:heads[0]] if e[0] != 'loop-head'])
    if not ok:
        return z3.BoolVal(False)
    return addr.z == z3.Select(ARGS, 0)                                   # made for the address


def refused_msg(c):
    """ValueError only for a non-empty list that is neither a message nor a bundle; nothing was added for it"""
    ev = since_head(c.trace) or []
    ev = [e for e in ev if e[0] in EV]
    return z3.BoolVal(not ev)


common = dict(hooks={'getattr': h_getattr, 'construct': h_construct, 'compare': h_compare},
              policies={'OscInterface._build_msg': recurse('rec-msg'), 'OscInterface._build_bundle': recurse('rec-bundle'),
                        'OscInterface._check_subtime': traced('check-subtime'),
                        'OscInterface._get_timetag': traced('timetag', lambda eng: V('obj', oid='the-timetag'))},
              class_modules={'OscInterface': F}, native=False, fields={'OscInterface': {}})

contract(F, 'OscInterface._build_msg', props=('C06', 'C07'),
         params={'self': 'self', 'send_time': 'real', 'arg_list': arglist_kind},
         requires=lambda c: z3.Int('arg_list.len') >= 1,
         raises={'ValueError': None},
         ensures=[('builder-for-the-address;then-only-per-argument-actions;then-build', msg_post)],
         on_raise=[('nothing-added-for-the-refused-argument', refused_msg)],
         loops={0: Loop(inv=msg_pass, kinds={'arg': 'any'})},
         **common)


# ---- _build_bundle ------------------------------------------------------------------------------------
def bundle_pass(c, L):
    ev = since_head(c.trace)
    if not ev:
        return z3.BoolVal(True)
    ev = [e for e in ev if e[0] in EV]
    a = z3.Select(ARGS, L.i)
    st_ = c._params['send_time']

    def same_time(v):
        return v.k == st_.k and z3.eq(v.z, st_.z)
    head = tag(VV.any_item(a, 0))
    if len(ev) == 2 and ev[0][0] == 'rec-msg' and ev[1][0] == 'add_content':
        rec, add = ev
        ok = len(rec[1]) == 2 and same_time(rec[1][0]) and rec[1][1].k in ('any', 'dyn') and add[1][0] is rec[2]
        return z3.And(z3.BoolVal(bool(ok)), rec[1][1].z == a if ok else z3.BoolVal(False), head == STR)
    if len(ev) == 3 and [e[0] for e in ev] == ['check-subtime', 'rec-bundle', 'add_content']:
        chk, rec, add = ev
        ok = (len(chk[1]) == 2 and chk[1][0].k == 'any' and chk[1][1].k == 'any'
              and len(rec[1]) == 2 and same_time(rec[1][0]) and rec[1][1].k in ('any', 'dyn') and add[1][0] is rec[2])
        if not ok:
            return z3.BoolVal(False)
        return z3.And(chk[1][0].z == z3.Select(ARGS, 0),                 # the enclosing bundle's time ...
                      chk[1][1].z == VV.any_item(a, 0),                  # ... against the nested one's, BEFORE encoding it
                      rec[1][1].z == a, head != STR,
                      z3.Or(head == INT, head == BOOL, head == FLOAT, head == NONE_T))
    return z3.BoolVal(False)


def bundle_post(c):
    t = [e for e in c.trace if e[0] in EV + ('timetag',) or e[0] == 'loop-head']
    kinds = [e[0] for e in t]
    if kinds[:2] != ['timetag', 'builder'] or t[1][1] != 'OscBundleBuilder':
        return z3.BoolVal(False)
    tt, b = t[0], t[1]
    heads = [i for i, e in enumerate(t) if e[0] == 'loop-head']
    tail = [e for e in t[heads[-1]:] if e[0] != 'loop-head'] if heads else None
    st_ = c._params['send_time']
    ok = (len(tt[1]) == 2 and tt[1][0].k == st_.k and z3.eq(tt[1][0].z, st_.z) and tt[1][1].k == 'any'
          and len(b[2]) == 1 and b[2][0] is tt[2]                          # the builder gets that time tag
          and tail is not None and len(tail) == 1 and tail[0][0] == 'build'
          and c.resultv.k == 'obj' and c.resultv.oid == 'built'
          and not [e for e in t[2:heads[0]] if e[0] != 'loop-head'])
    if not ok:
        return z3.BoolVal(False)
    return tt[1][1].z == z3.Select(ARGS, 0)                                # the time tag of the bundle's own time


contract(F, 'OscInterface._build_bundle', props=('C06', 'C07'),
         params={'self': 'self', 'send_time': 'real', 'arg_list': arglist_kind},
         # elements of a bundle are lists (messages or bundles): the documented input format
         requires=lambda c: z3.And(z3.Int('arg_list.len') >= 1, z3.ForAll([z3.Int('k')], z3.Implies(
             z3.Int('k') >= 1, tag(z3.Select(ARGS, z3.Int('k'))) == LIST))),
         raises={'ValueError': None, 'TypeError': None, 'IndexError': None},
         ensures=[('time-tag-of-its-own-time;then-only-per-element-actions;then-build', bundle_post)],
         on_raise=[('nothing-added-for-the-refused-element', refused_msg)],
         loops={0: Loop(inv=bundle_pass, kinds={'arg': 'any'})},
         **common)
