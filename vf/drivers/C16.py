# vf/drivers/C16.py    run as:  /venv/bin/python -m vf.drivers.C16 --tier quick --seed 0 --out f.json
"""C16 -- bus, buffer and node-id allocation is safe and complete.

Sub-checks (``--only``):

engine   sc3.synth._engine.ContiguousBlockAllocator against the interval-set
         model of vf/specs/alloc.py.  Breadth-first over ALL histories of
         alloc(1..3) / free(any address ever returned, i.e. live, stale and
         double free) / free(an address never returned), for every partition
         size, reserved ``pos`` and ``addr_offset``; every internal random
         tie-break (``bi.choice``) is replaced by an enumerating chooser and
         every branch is explored.  States that are identical (whole allocator
         object graph + model + set of addresses ever returned) are merged, so
         the bound "all histories of length <= L" is covered exactly.
         After every distinct state: free everything (ascending and
         descending) and alloc(size - pos) must succeed.
objects  the same through the public objects: Server bus / buffer allocators
         of client ids 0..3 of a multi-client ServerOptions; AudioBus,
         ControlBus, Buffer, Buffer.new_consecutive life cycles; partitions of
         different clients disjoint and inside the option ranges.
nodeids  NodeIDAllocator(user, init_temp) for users 0..31: ids pairwise
         distinct inside every window of (0x03FFFFFF - init + 1) consecutive
         allocations, including across the wrap-around, and inside
         [user * 2**26 + init, user * 2**26 + 0x03FFFFFF]; also through
         Server._next_node_id of client ids 0..3.

What a violation means here: the *result* of alloc/free (return values of the
allocator, ``.index`` / ``.bufnum`` of the public objects) contradicts the
model.  Internal state is read only to merge identical states and to position
the node id counter near the top of its range.
"""
import copy
import os
import concurrent.futures as cf
import multiprocessing as mp

from vf.common import driver_main, wants, silence_sc3_logging
from vf.specs.alloc import IntervalAllocModel, disjoint

NPROC = 16
TOP = 0x03FFFFFF


# --------------------------------------------------------------------------
# enumerating chooser
# --------------------------------------------------------------------------

def _cand_key(x):
    return (getattr(x, 'start', 0), getattr(x, 'size', 0), repr(x))


class Chooser:
    """Replacement for sc3.base.builtins.choice: follows ``script`` (indices
    into the candidates sorted by address) and records how many candidates
    each call had."""

    def __init__(self):
        self.script = []
        self.calls = []

    def reset(self, script):
        self.script = list(script)
        self.calls = []

    def __call__(self, lst):
        cands = sorted(lst, key=_cand_key)
        k = len(self.calls)
        idx = self.script[k] if k < len(self.script) else 0
        self.calls.append(len(cands))
        return cands[idx % len(cands)]


_CHOOSER = Chooser()
_PATCHED = []


def _patch_choice():
    from sc3.base import builtins as bi
    if not _PATCHED:
        _PATCHED.append(bi.choice)
        bi.choice = _CHOOSER


def _unpatch_choice():
    from sc3.base import builtins as bi
    if _PATCHED:
        bi.choice = _PATCHED.pop()


def _sc3_nrt():
    silence_sc3_logging()
    import warnings
    warnings.simplefilter('ignore')
    import sc3
    sc3.init('nrt')   # idempotent


# --------------------------------------------------------------------------
# state canonicalisation (observation only: used to merge identical states)
# --------------------------------------------------------------------------

def _content(x):
    if x is None or isinstance(x, (bool, int, float, str)):
        return repr(x)
    if isinstance(x, (list, tuple)):
        return '[' + ','.join(_content(v) for v in x) + ']'
    if isinstance(x, dict):
        return '{' + ','.join(sorted(
            _content(k) + ':' + _content(v) for k, v in x.items())) + '}'
    if isinstance(x, (set, frozenset)):
        return '<' + ','.join(sorted(_content(v) for v in x)) + '>'
    if hasattr(x, '__dict__'):
        return type(x).__name__ + _content(vars(x))
    return repr(x)


def _canon(x, memo):
    if x is None or isinstance(x, (bool, int, float, str)):
        return x
    if isinstance(x, (list, tuple)):
        return tuple(_canon(v, memo) for v in x)
    if isinstance(x, dict):
        items = sorted(x.items(), key=lambda kv: _content(kv[0]))
        return ('d',) + tuple((_canon(k, memo), _canon(v, memo))
                              for k, v in items)
    if isinstance(x, (set, frozenset)):
        return ('s',) + tuple(_canon(v, memo)
                              for v in sorted(x, key=_content))
    if hasattr(x, '__dict__'):
        if id(x) in memo:
            return ('ref', memo[id(x)])
        memo[id(x)] = len(memo)
        return (type(x).__name__,) + tuple(
            (k, _canon(v, memo)) for k, v in vars(x).items())
    return repr(x)


def canon(x):
    return _canon(x, {})


# --------------------------------------------------------------------------
# (a) engine
# --------------------------------------------------------------------------

def _key_for(clause, off, what='alloc'):
    if clause == 'complete':
        return ('C16.alloc:no-coalesce-with-offset' if off > 0
                else 'C16.alloc:none-despite-free-run')
    return {
        'overlap': 'C16.alloc:overlaps-live-range',
        'partition': 'C16.alloc:leaves-partition',
        'type': 'C16.alloc:bad-result',
        'raises': 'C16.%s:raises' % what,
    }[clause]


def _do(alloc, op):
    if op[0] == 'alloc':
        return alloc.alloc(op[1])
    return alloc.free(op[1])


def _branches(alloc, op):
    """Run ``op`` on copies of ``alloc`` once per combination of tie-breaks.
    Yields (script, allocator_after, ('ok', result) | ('exc', repr))."""
    pending = [[]]
    while pending:
        script = pending.pop()
        a = copy.deepcopy(alloc)
        _CHOOSER.reset(script)
        try:
            res = ('ok', _do(a, op))
        except Exception as e:  # judged by the caller
            res = ('exc', '%s: %s' % (type(e).__name__, e))
        calls = list(_CHOOSER.calls)
        full = script + [0] * (len(calls) - len(script))
        for k in range(len(script), len(calls)):
            for j in range(1, calls[k]):
                pending.append(full[:k] + [j])
        yield full, a, res


def _judge(model, ever, op, res):
    """Returns (problems, fatal): problems = list of (clause, text)."""
    if res[0] == 'exc':
        return [('raises', '%s(%r) raised %s' % (op[0], op[1], res[1]))]
    if op[0] == 'alloc':
        probs = model.judge_alloc(op[1], res[1])
        if res[1] is not None and not any(c == 'type' for c, _ in probs):
            model.commit(res[1], op[1])
            ever.add(res[1])
        return probs
    model.free(op[1])
    return []


def _ops(model, ever, maxn):
    ops = [('alloc', n) for n in range(1, maxn + 1)]
    ops.extend(('free', a) for a in sorted(ever))
    never = [a for a in range(model.lo, model.hi) if a not in ever]
    if never:
        ops.append(('free', never[0]))
        if len(never) > 1:
            ops.append(('free', never[-1]))
    return ops


def _drain_ops(model, order, size, pos):
    starts = [s for s, _ in model.live_ranges()]
    if order == 'desc':
        starts.reverse()
    return [('free', s) for s in starts] + [('alloc', size - pos)]


def _run_ops(alloc, model, ever, ops, scripts=None):
    """Apply ops (first tie-break, or the given scripts) in place; returns the
    first problem as (index, op, clause, text) or None."""
    for i, op in enumerate(ops):
        _CHOOSER.reset(scripts[i] if scripts else [])
        try:
            res = ('ok', _do(alloc, op))
        except Exception as e:
            res = ('exc', '%s: %s' % (type(e).__name__, e))
        probs = _judge(model, ever, op, res)
        if probs:
            return (i, op, probs[0][0], probs[0][1], res)
    return None


def _hist_json(hist):
    return [[op[0], op[1], list(script)] for op, script in hist]


def explore_config(task):
    """Worker: one (size, pos, off) configuration, breadth first."""
    size, pos, off, maxlen, maxn = task
    _sc3_nrt()
    _patch_choice()
    from sc3.synth import _engine as eng
    lo, hi = off + pos, off + size
    viol = []
    seen_keys = set()
    evals = drains = 0
    samples = []

    def add_violation(hist, clause, text, res, what):
        key = _key_for(clause, off, what)
        if sum(1 for v in viol if v['key'] == key) >= 2:
            return
        viol.append({
            'key': key, 'clause': clause, 'text': text,
            'observed': res[1] if res else None,
            'input': {'size': size, 'pos': pos, 'addr_offset': off,
                      'history': _hist_json(hist)},
            'len': len(hist)})

    a0 = eng.ContiguousBlockAllocator(size, pos, off)
    m0 = IntervalAllocModel(lo, hi)
    frontier = [(a0, m0, frozenset(), [])]
    seen = {(canon(a0), m0.key(), frozenset())}
    nstates = 1
    for level in range(maxlen + 1):
        nxt = []
        for alloc, model, ever, hist in frontier:
            # coalescing: after freeing everything the whole partition is one
            # free run again
            if model.live:
                for order in ('asc', 'desc'):
                    a = copy.deepcopy(alloc)
                    m = model.copy()
                    dops = _drain_ops(m, order, size, pos)
                    drains += 1
                    bad = _run_ops(a, m, set(ever), dops)
                    evals += len(dops)
                    if bad:
                        i, op, clause, text, res = bad
                        add_violation(
                            hist + [(o, []) for o in dops[:i + 1]], clause,
                            'after freeing every live range (%s): %s'
                            % (order, text), res, op[0])
            if level == maxlen:
                continue
            for op in _ops(model, ever, maxn):
                for script, a2, res in _branches(alloc, op):
                    evals += 1
                    m2 = model.copy()
                    e2 = set(ever)
                    probs = _judge(m2, e2, op, res)
                    h2 = hist + [(op, script)]
                    if probs:
                        for clause, text in probs:
                            add_violation(h2, clause, text, res, op[0])
                        continue  # the model has diverged: do not go deeper
                    e2 = frozenset(e2)
                    key = (canon(a2), m2.key(), e2)
                    if key in seen:
                        continue
                    seen.add(key)
                    nstates += 1
                    nxt.append((a2, m2, e2, h2))
                    if len(samples) < 3 and len(h2) == min(maxlen, 4):
                        samples.append({'size': size, 'pos': pos,
                                        'addr_offset': off,
                                        'history': _hist_json(h2)})
        frontier = nxt
    viol.sort(key=lambda v: v['len'])
    return {'task': [size, pos, off], 'evals': evals, 'states': nstates,
            'drains': drains, 'violations': viol, 'samples': samples}


def replay_engine(args):
    """Re-run one recorded history; returns (clause, text, observed) or None."""
    _sc3_nrt()
    _patch_choice()
    try:
        from sc3.synth import _engine as eng
        size, pos, off = args['size'], args['pos'], args['addr_offset']
        alloc = eng.ContiguousBlockAllocator(size, pos, off)
        model = IntervalAllocModel(off + pos, off + size)
        ops = [(h[0], h[1]) for h in args['history']]
        scripts = [h[2] for h in args['history']]
        bad = _run_ops(alloc, model, set(), ops, scripts)
        if bad:
            i, op, clause, text, res = bad
            return (clause, 'step %d: %s' % (i, text), res[1], op[0])
        return None
    finally:
        _unpatch_choice()


def check_engine(rep):
    if rep.tier == 'thorough':
        passes = [(range(4, 13), 8, 4), (range(4, 9), 10, 3)]
    else:
        passes = [(range(4, 11), 7, 3)]
    tasks = []
    for sizes, maxlen, maxn in passes:
        for size in sizes:
            for pos in (0, 1, 2):
                for off in (0, size, 3 * size):
                    tasks.append((size, pos, off, maxlen, maxn))
    tasks.sort(key=lambda t: -(t[0] * 100 + t[3]))
    ctx = mp.get_context('fork')
    with cf.ProcessPoolExecutor(NPROC, mp_context=ctx) as ex:
        results = list(ex.map(explore_config, tasks, chunksize=1))
    evals = sum(r['evals'] for r in results)
    states = sum(r['states'] for r in results)
    samples = [s for r in results for s in r['samples']][:5]
    allv = [v for r in results for v in r['violations']]
    allv.sort(key=lambda v: (v['len'], v['input']['size']))
    for v in allv:
        rep.violation(
            obligation='C16.engine.' + v['clause'],
            what='ContiguousBlockAllocator(size=%d, pos=%d, addr_offset=%d): '
                 '%s' % (v['input']['size'], v['input']['pos'],
                         v['input']['addr_offset'], v['text']),
            input=v['input'], observed=v['observed'],
            expected='a result the interval-set model allows',
            key=v['key'], replay={'func': 'engine', 'args': v['input']})
    rep.bounded(
        name='engine', function='sc3.synth._engine.ContiguousBlockAllocator',
        bound='; '.join(
            'all histories of length <= %d over {alloc 1..%d, free(any '
            'address ever returned), free(smallest/largest address never '
            'returned)}, sizes %d..%d' % (ml, mn, sz[0], sz[-1])
            for sz, ml, mn in passes) +
            '; pos 0..2, addr_offset in {0, size, 3*size}, every bi.choice '
            'tie-break; identical states merged',
        evaluations=evals, distinct_nontrivial=states,
        rule='breadth first; evaluations = alloc/free calls on the real '
             'allocator (incl. drain checks), distinct = distinct '
             '(allocator object graph, model, ever-returned set) states; '
             'each result judged by IntervalAllocModel.judge_alloc',
        samples=samples, exhaustive=True,
        extra={'configs': len(tasks)})


# --------------------------------------------------------------------------
# (b) public objects
# --------------------------------------------------------------------------

OBJ_CFGS = [
    # control_buses, private audio buses, in, out, buffers, reserved c/a/b
    {'control': 16, 'audio_private': 16, 'inp': 2, 'out': 2, 'buffers': 16,
     'res': [0, 0, 0]},
    {'control': 20, 'audio_private': 24, 'inp': 3, 'out': 2, 'buffers': 20,
     'res': [1, 2, 1]},
    {'control': 27, 'audio_private': 22, 'inp': 0, 'out': 1, 'buffers': 25,
     'res': [2, 1, 2]},
]
KINDS = ('control', 'audio', 'buffer')
_SERVERS = {}


def _server_for(ci):
    """One sc3 Server per option set (created once per process)."""
    from sc3.synth.server import Server, ServerOptions
    from sc3.base.netaddr import NetAddr
    key = (os.getpid(), ci)
    if key not in _SERVERS:
        cfg = OBJ_CFGS[ci]
        o = ServerOptions()
        o.max_logins = 4
        o.control_buses = cfg['control']
        o.input_channels = cfg['inp']
        o.output_channels = cfg['out']
        o.audio_buses = cfg['inp'] + cfg['out'] + cfg['audio_private']
        o.buffers = cfg['buffers']
        o.reserved_control_buses, o.reserved_audio_buses, \
            o.reserved_buffers = cfg['res']
        name = 'c16_%d_%d' % (os.getpid(), ci)
        _SERVERS[key] = Server(name, NetAddr('127.0.0.1', 57200 + ci), o)
    return _SERVERS[key]


def _option_range(server, kind):
    o = server.options
    if kind == 'control':
        return (0, o.control_buses)
    if kind == 'audio':
        return (o.first_private_bus(), o.audio_buses)
    return (0, o.buffers)


class _NoSpace(Exception):
    pass


def _new_obj(server, kind, n):
    """Allocate n consecutive indices through the public objects. Returns
    (handle, start) ; raises _NoSpace when the library reports no space."""
    from sc3.synth.bus import AudioBus, ControlBus, BusException
    from sc3.synth.buffer import Buffer
    if kind in ('control', 'audio'):
        cls = ControlBus if kind == 'control' else AudioBus
        try:
            b = cls(n, server)
        except BusException as e:
            raise _NoSpace(str(e))
        return b, b.index
    try:
        if n == 1:
            b = [Buffer(1, 1, server)]
        else:
            b = Buffer.new_consecutive(n, 1, 1, server)
    except Exception as e:
        if 'No more buffer numbers' in str(e) or 'consecutive' in str(e):
            raise _NoSpace(str(e))
        raise
    nums = [x.bufnum for x in b]
    if nums != list(range(nums[0], nums[0] + n)):
        return b, ('bad', nums)
    return b, nums[0]


def _free_obj(kind, handle):
    if kind in ('control', 'audio'):
        handle.free()
    else:
        for b in handle:   # the first one releases the block
            b.free()


def _learn_partition(server, cid, kind):
    """Indices the client can obtain one by one from fresh allocators."""
    server._set_client_id(cid)
    got = []
    for _ in range(10000):
        try:
            _, idx = _new_obj(server, kind, 1)
        except _NoSpace:
            break
        got.append(idx)
    server._set_client_id(cid)
    return got


def _obj_histories(maxlen):
    """All sequences over new(1..3) / free(object i) (i < number of objects
    created so far; freeing twice = double free)."""
    res = []

    def rec(h, nobj):
        if h:
            res.append(list(h))
        if len(h) == maxlen:
            return
        for n in (1, 2, 3):
            h.append(['new', n]); rec(h, nobj + 1); h.pop()
        for i in range(nobj):
            h.append(['free', i]); rec(h, nobj); h.pop()
    rec([], 0)
    return res


def _run_obj_history(server, cid, kind, lo, hi, hist):
    """Returns (clause, text, observed, step) or None."""
    server._set_client_id(cid)      # fresh allocators
    _CHOOSER.reset([])
    model = IntervalAllocModel(lo, hi)
    objs = []   # [handle, start, n, freed]
    steps = [tuple(h) for h in hist]
    # closing: free everything, then the whole partition must be obtainable
    closing = True
    i = 0
    while True:
        if i < len(steps):
            op = steps[i]
        elif closing:
            steps.extend(('free', j) for j in range(len(objs)))
            steps.append(('new', hi - lo))
            closing = False
            if i >= len(steps):
                break
            op = steps[i]
        else:
            break
        _CHOOSER.reset([])
        if op[0] == 'new':
            n = op[1]
            try:
                handle, start = _new_obj(server, kind, n)
            except _NoSpace:
                handle, start = None, None
            except Exception as e:
                return ('raises', 'step %d new(%d) raised %s: %s'
                        % (i, n, type(e).__name__, e), repr(e), i)
            if isinstance(start, tuple):
                return ('type', 'step %d new_consecutive(%d) returned buffer '
                        'numbers %r' % (i, n, start[1]), start[1], i)
            probs = model.judge_alloc(n, start)
            if probs:
                return (probs[0][0], 'step %d %s' % (i, probs[0][1]), start,
                        i)
            if start is not None:
                model.commit(start, n)
            objs.append([handle, start, n, start is None])
        else:
            o = objs[op[1]]
            if o[0] is not None:
                try:
                    _free_obj(kind, o[0])
                except Exception as e:
                    return ('raises', 'step %d free of object %d raised %s: '
                            '%s' % (i, op[1], type(e).__name__, e), repr(e),
                            i)
                if not o[3]:
                    model.free(o[1])
                    o[3] = True
        i += 1
    return None


def objects_worker(task):
    ci, cid, kind, maxlen = task
    _sc3_nrt()
    _patch_choice()
    server = _server_for(ci)
    part = _learn_partition(server, cid, kind)
    out = {'task': [ci, cid, kind], 'partition': part, 'evals': 0,
           'hist': 0, 'violations': [], 'samples': []}
    if not part:
        return out
    lo, hi = min(part), max(part) + 1
    for hist in _obj_histories(maxlen):
        out['hist'] += 1
        out['evals'] += len(hist)
        bad = _run_obj_history(server, cid, kind, lo, hi, hist)
        if bad and len(out['violations']) < 3:
            out['violations'].append({
                'clause': bad[0], 'text': bad[1], 'observed': bad[2],
                'input': {'cfg': ci, 'client_id': cid, 'kind': kind,
                          'partition': [lo, hi], 'history': hist},
                'len': len(hist)})
        if len(out['samples']) < 1 and len(hist) == maxlen:
            out['samples'].append({'cfg': ci, 'client_id': cid, 'kind': kind,
                                   'history': hist})
    out['violations'].sort(key=lambda v: v['len'])
    return out


def replay_objects(args):
    _sc3_nrt()
    _patch_choice()
    try:
        server = _server_for(args['cfg'])
        lo, hi = args['partition']
        return _run_obj_history(server, args['client_id'], args['kind'],
                                lo, hi, args['history'])
    finally:
        _unpatch_choice()


def replay_partitions(args):
    _sc3_nrt()
    _patch_choice()
    try:
        server = _server_for(args['cfg'])
        parts = {cid: _learn_partition(server, cid, args['kind'])
                 for cid in range(4)}
        return _partition_problem(server, args['kind'], parts)
    finally:
        _unpatch_choice()


def _partition_problem(server, kind, parts):
    olo, ohi = _option_range(server, kind)
    for cid, p in parts.items():
        if not p:
            return ('client %d cannot allocate a single %s index'
                    % (cid, kind), p)
        bad = [x for x in p if not (isinstance(x, int) and olo <= x < ohi)]
        if bad:
            return ('client %d was given %s indices %r outside the option '
                    'range [%d, %d)' % (cid, kind, bad[:4], olo, ohi), bad)
        if len(set(p)) != len(p):
            return ('client %d was given a %s index twice without a free: %r'
                    % (cid, kind, p), p)
    for a in parts:
        for b in parts:
            if a < b:
                common = sorted(set(parts[a]) & set(parts[b]))
                if common:
                    return ('clients %d and %d can both obtain %s indices %r'
                            % (a, b, kind, common[:4]), common)
    return None


def _obj_offset(inp):
    """Address offset of the partition = its lower bound minus the reserved
    indices of the option set (only used to name the violation key)."""
    res = OBJ_CFGS[inp['cfg']]['res'][KINDS.index(inp['kind'])]
    return inp['partition'][0] - res


def check_objects(rep):
    maxlen = 6 if rep.tier == 'thorough' else 5
    tasks = [(ci, cid, kind, maxlen) for ci in range(len(OBJ_CFGS))
             for cid in range(4) for kind in KINDS]
    ctx = mp.get_context('fork')
    with cf.ProcessPoolExecutor(NPROC, mp_context=ctx) as ex:
        results = list(ex.map(objects_worker, tasks, chunksize=1))
    # partitions: disjoint between clients, inside the option ranges
    _sc3_nrt()
    nparts = 0
    for ci in range(len(OBJ_CFGS)):
        server = _server_for(ci)
        for kind in KINDS:
            parts = {r['task'][1]: r['partition'] for r in results
                     if r['task'][0] == ci and r['task'][2] == kind}
            nparts += len(parts)
            prob = _partition_problem(server, kind, parts)
            if prob:
                rep.violation(
                    obligation='C16.objects.partitions',
                    what='ServerOptions cfg %d (%r): %s'
                         % (ci, OBJ_CFGS[ci], prob[0]),
                    input={'cfg': ci, 'kind': kind, 'options': OBJ_CFGS[ci]},
                    observed=prob[1],
                    expected='disjoint per-client sets inside the option '
                             'range',
                    key='C16.partition:%s' % kind,
                    replay={'func': 'partitions',
                            'args': {'cfg': ci, 'kind': kind}})
    allv = [v for r in results for v in r['violations']]
    allv.sort(key=lambda v: v['len'])
    for v in allv:
        cid = v['input']['client_id']
        key = _key_for(v['clause'], _obj_offset(v['input']), 'objects')
        rep.violation(
            obligation='C16.objects.' + v['clause'],
            what='%s objects of client %d (options %r): %s'
                 % (v['input']['kind'], cid, OBJ_CFGS[v['input']['cfg']],
                    v['text']),
            input=v['input'], observed=v['observed'],
            expected='a result the interval-set model allows',
            key=key, replay={'func': 'objects', 'args': v['input']})
    rep.bounded(
        name='objects',
        function='Server._new_bus_allocators/_new_buffer_allocators, '
                 'AudioBus, ControlBus, Buffer, Buffer.new_consecutive',
        bound='%d multi-client option sets (max_logins 4, reserved 0..2) x '
              'client ids 0..3 x {control, audio, buffer}: all life cycles of '
              'length <= %d over new(1..3)/free(object i, incl. double free) '
              '+ free all + allocate the whole partition'
              % (len(OBJ_CFGS), maxlen),
        evaluations=sum(r['evals'] for r in results),
        distinct_nontrivial=sum(r['hist'] for r in results),
        rule='every history enumerated; distinct = histories; the client '
             'partition is learnt by allocating single indices until the '
             'library reports no space (first tie-break candidate)',
        samples=[s for r in results for s in r['samples']][:5],
        exhaustive=True, extra={'partitions_checked': nparts})


# --------------------------------------------------------------------------
# (c) node ids
# --------------------------------------------------------------------------

def _nodeid_case(user, init, position, count):
    """Returns problem text or None. position: None or distance from TOP at
    which the internal counter is placed before allocating."""
    from sc3.synth import _engine as eng
    a = eng.NodeIDAllocator(user, init)
    if position is not None:
        if not hasattr(a, '_temp'):
            return None
        a._temp = TOP - position
    lo, hi = user * 2 ** 26 + init, user * 2 ** 26 + TOP
    window = TOP - init + 1
    ids = []
    for k in range(count):
        x = a.alloc()
        if isinstance(x, bool) or not isinstance(x, int):
            return 'alloc #%d returned %r' % (k, x)
        if not lo <= x <= hi:
            return ('alloc #%d returned %d outside the range [%d, %d] of '
                    'user %d' % (k, x, lo, hi, user))
        ids.append(x)
    last = {}
    for k, x in enumerate(ids):
        if x in last and k - last[x] < window:
            return ('allocs #%d and #%d both returned %d (window of %d '
                    'consecutive allocations)' % (last[x], k, x, window))
        last[x] = k
    return None


def _nodeid_cases(tier):
    n = 4000 if tier == 'thorough' else 600
    cases = []
    for user in range(32):
        for init in (1000, 2, 1):
            cases.append((user, init, None, n))          # from the start
            cases.append((user, init, 5, 64))            # across the wrap
            cases.append((user, init, 0, 8))
        for w in (1, 2, 8, 37):                          # small windows: wrap
            cases.append((user, TOP - w + 1, None, 4 * w + 3))  # public only
    return cases


def check_nodeids(rep):
    _sc3_nrt()
    cases = _nodeid_cases(rep.tier)
    evals = 0
    for case in cases:
        evals += case[3]
        try:
            prob = _nodeid_case(*case)
        except Exception as e:
            prob = 'raised %s: %s' % (type(e).__name__, e)
        if prob:
            user, init, position, count = case
            rep.violation(
                obligation='C16.nodeids',
                what='NodeIDAllocator(user=%d, init_temp=%d)%s: %s'
                     % (user, init, '' if position is None else
                        ' with the counter placed %d below the top'
                        % position, prob),
                input=list(case), observed=prob,
                expected='ids pairwise distinct inside a window of '
                         '(0x03FFFFFF - init + 1) allocations and inside '
                         '[user*2**26 + init, user*2**26 + 0x03FFFFFF]',
                key='C16.nodeids:%s' % ('wrap' if position is not None
                                        or init > 1000 else 'range'),
                replay={'func': 'nodeids', 'args': list(case)})
    # through the server objects
    nsrv = 0
    for ci in range(len(OBJ_CFGS)):
        server = _server_for(ci)
        for cid in range(4):
            for init in (1000, 1, TOP - 6):
                server.options.initial_node_id = init
                server._set_client_id(cid)
                lo, hi = cid * 2 ** 26 + init, cid * 2 ** 26 + TOP
                window = TOP - init + 1
                ids = []
                prob = None
                for k in range(40):
                    x = server._next_node_id()
                    nsrv += 1
                    if not isinstance(x, int) or not lo <= x <= hi:
                        prob = ('_next_node_id #%d returned %r outside '
                                '[%d, %d]' % (k, x, lo, hi))
                        break
                    if x in ids[-(window - 1):] and window > 1:
                        prob = ('_next_node_id #%d returned %d again inside '
                                'a window of %d' % (k, x, window))
                        break
                    ids.append(x)
                if prob:
                    rep.violation(
                        obligation='C16.nodeids.server',
                        what='Server client_id=%d initial_node_id=%d: %s'
                             % (cid, init, prob),
                        input=[ci, cid, init], observed=prob,
                        expected='ids in the client range, distinct inside '
                                 'the window',
                        key='C16.nodeids:server',
                        replay={'func': 'nodeids_server',
                                'args': [ci, cid, init]})
        server.options.initial_node_id = 1000
        server._set_client_id(0)
    rep.bounded(
        name='nodeids', function='sc3.synth._engine.NodeIDAllocator.alloc, '
                                 'Server._next_node_id',
        bound='users 0..31 x init_temp in {1000, 2, 1, top-36, top-7, top-1, '
              'top}: first %d allocations, 64 allocations across the '
              'wrap-around (counter placed 5 below the top), 4 full windows '
              'for the small windows; Server client ids 0..3'
              % cases[0][3],
        evaluations=evals + nsrv, distinct_nontrivial=len(cases),
        rule='every id range-checked; distinctness inside every sliding '
             'window of (0x03FFFFFF - init + 1) allocations',
        samples=[list(c) for c in cases[:2] + cases[-2:]], exhaustive=False)


# --------------------------------------------------------------------------

def main(rep):
    silence_sc3_logging()
    if wants(rep, 'engine'):
        check_engine(rep)
    if wants(rep, 'objects'):
        check_objects(rep)
    if wants(rep, 'nodeids'):
        check_nodeids(rep)
    rep.note('C16: the address alloc() picks among the free runs is left to '
             'the implementation (any free start is accepted); free() of an '
             'address outside the partition is not exercised (the statement '
             'does not say what it does).')


def replay(case, rep):
    r = case.get('replay') or {}
    func, args = r.get('func'), r.get('args')
    if func == 'engine':
        bad = replay_engine(args)
        if bad:
            rep.violation(obligation=case.get('obligation', 'C16.engine'),
                          what=bad[1], input=args, observed=bad[2],
                          key=_key_for(bad[0], args['addr_offset'], bad[3]))
        return not bad
    if func == 'objects':
        bad = replay_objects(args)
        if bad:
            rep.violation(obligation=case.get('obligation', 'C16.objects'),
                          what=bad[1], input=args, observed=bad[2],
                          key=_key_for(bad[0], _obj_offset(args), 'objects'))
        return not bad
    if func == 'partitions':
        bad = replay_partitions(args)
        if bad:
            rep.violation(obligation='C16.objects.partitions', what=bad[0],
                          input=args, observed=bad[1],
                          key='C16.partition:%s' % args['kind'])
        return not bad
    if func == 'nodeids':
        _sc3_nrt()
        prob = _nodeid_case(*args)
        if prob:
            rep.violation(obligation='C16.nodeids', what=prob, input=args,
                          key=case.get('key'))
        return not prob
    if func == 'nodeids_server':
        _sc3_nrt()
        sub = type(rep)(rep.prop, rep.tier, rep.seed)
        sub.only = {'nodeids'}
        check_nodeids(sub)
        for v in sub.violations:
            if v['key'] == 'C16.nodeids:server':
                rep.violations.append(v)
        return not rep.violations
    return None


if __name__ == '__main__':
    driver_main('C16', main, replay)
