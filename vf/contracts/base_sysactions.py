"""Contracts for the callback registries of sc3/base/systemactions.py (C18: "the callback registries (system actions,
server actions, notifications) run exactly the actions currently registered, in registration order").

  SystemAction.add        the action is filed with exactly the caller's (args, kwargs) under itself; nothing else
  SystemAction.remove     deleted iff registered; nothing else
  SystemAction.run        every action of a SNAPSHOT of the registry (a copy taken before the first call: an action may
                          remove itself or others while the run goes on) is handed to _do_action once, in the order of
                          the registry (= registration order: a dict); StartUp.run marks `done` before the first action;
                          CmdPeriod.run / hard_run run their actions the same way
  SystemAction._do_action an action that is STILL registered is called once with the arguments it was registered with;
                          one that was removed meanwhile is not called
  StartUp.defer           after start-up: called now, once, with the caller's arguments, and not filed; before: filed
  ServerAction.add / remove / remove_server   per server: a dictionary of its own made on first use; discard; drop
  ServerAction.run        the actions of the server, then - for the default server - those filed under 'default', then
                          those under 'all': each group from a snapshot, each action once with (server, *args, **kwargs)

The registries are ghost dictionaries: their key order is an uninterpreted sequence, look-ups and calls are events.
"""
import z3
from vf.pyvc.spec import contract, Loop, REGISTRY
from vf.pyvc.values import *
from vf.pyvc import values as VV
from vf.pyvc.engine import Raised, Unsupported

F = 'sc3/base/systemactions.py'
KEYS = z3.Function('registry_key', z3.IntSort(), VV.Any)
NK = z3.Int('registry.len')
REGISTERED = z3.Bool('action_is_registered')


def is_registry(v, suffix='_actions'):
    return v.k == 'obj' and str(v.oid).endswith(suffix)


def snapshot(of):
    return V('seq', extra={'len': NK, 'facts': [NK >= 0], 'snapshot-of': of,
                           'get': (lambda e_, i, s_: V('any', KEYS(i)))})


def sa_getattr(eng, obj, name, st, node):
    if is_registry(obj) and name == 'copy':
        def copy(eng, a, kw, st, node, _o=obj):
            st.trace.append(('snapshot', _o.oid))
            return [(st, snapshot(_o.oid))]
        return [(st, V('func', py=('spec', copy)))]
    return None


def sa_to_list(eng, v, st, node):
    if is_registry(v):                                       # list(registry): a snapshot of the keys just as well
        st.trace.append(('snapshot', v.oid))
        return [(st, snapshot(v.oid))]
    return None


def sa_iterate(eng, obj, st, node):
    if is_registry(obj):                                     # the LIVE registry: an action that removes itself breaks the run
        return V('seq', extra={'len': NK, 'facts': [NK >= 0], 'live': obj.oid, 'get': (lambda e_, i, s_: V('any', KEYS(i)))})
    return None


def sa_contains(eng, container, item, st, node):
    if is_registry(container):
        st.trace.append(('registered?', item))
        return REGISTERED
    return None


def sa_getitem(eng, obj, idx, st, node):
    if is_registry(obj):
        st.trace.append(('entry-of', idx))
        return [(st, vtuple([V('obj', oid='registered-args'), V('obj', oid='registered-kwargs')]))]
    return None


def sa_setitem(eng, obj, idx, v, st, node):
    if is_registry(obj):
        st.trace.append(('file', idx, v))
        return [('next', st)]
    return None


def sa_delitem(eng, obj, idx, st, node):
    if is_registry(obj):
        st.trace.append(('unfile', idx))
        return [('next', st)]
    return None


def sa_call(eng, f, args, kwargs, st, node):
    if f.k == 'obj' and f.oid == 'action':
        st.trace.append(('called', f, tuple(args), dict(kwargs)))
        return [(st, NONE)]
    return None


def do_pol(eng, selfv, args, kwargs, st, node):
    st.trace.append(('do', tuple(args)))
    return [(st, NONE)]


def since_head(trace):
    idx = max([i for i, e in enumerate(trace) if e[0] == 'loop-head'] or [-1])
    return trace[idx + 1:] if idx >= 0 else None


def run_pass(c, L):
    ev = since_head(c.trace)
    if not ev:
        return z3.BoolVal(True)
    dos = [e for e in ev if e[0] == 'do']
    if len(dos) != 1 or len(dos[0][1]) != 1 or dos[0][1][0].k != 'any':
        return z3.BoolVal(False)
    if [e for e in ev if e[0] in ('snapshot', 'file', 'unfile', 'called')]:
        return z3.BoolVal(False)
    return dos[0][1][0].z == KEYS(L.i - 1)                                   # the i-th action of the snapshot, once


def run_over(c, seq, k, elem):
    ok = seq.k == 'seq' and seq.extra.get('snapshot-of') is not None and str(seq.extra['snapshot-of']).endswith('_actions')
    return z3.BoolVal(bool(ok)), (elem.z == KEYS(k) if elem.k == 'any' else z3.BoolVal(False))


def run_post(c):
    snaps = [e for e in c.trace if e[0] == 'snapshot']
    return z3.BoolVal(len(snaps) == 1)                                       # ONE snapshot, taken before the loop


SA_FIELDS = {'_actions': 'obj'}
RUN_LOOP = dict(inv=run_pass, over=run_over, kinds={'action': 'any'})
contract(F, 'SystemAction.run', props=('C18',), params={'cls': 'cls'},
         ensures=[('one-snapshot-of-the-registry', run_post)], loops={0: Loop(**RUN_LOOP)},
         fields={'SystemAction': SA_FIELDS}, class_modules={'SystemAction': F},
         hooks={'getattr': sa_getattr, 'iterate': sa_iterate, 'to_list': sa_to_list}, policies={'SystemAction._do_action': do_pol}, native=False)


def startup_run_post(c):
    snaps = [i for i, e in enumerate(c.trace) if e[0] == 'snapshot']
    done = [i for i, e in enumerate(c.trace) if e[0] == 'done-up']
    return z3.And(z3.BoolVal(len(snaps) == 1 and len(done) >= 1 and done[0] < snaps[0]), c.post.cls('StartUp').done)


def su_setattr(eng, obj, name, v, st, node):
    if name == 'done' and v.k == 'bool' and z3.is_true(z3.simplify(v.z)):
        st.trace.append(('done-up',))
    return None


contract(F, 'StartUp.run', props=('C18',), params={'cls': 'cls'},
         ensures=[('marked-done-first,then-one-snapshot-of-the-registry', startup_run_post)], loops={0: Loop(**RUN_LOOP)},
         fields={'StartUp': dict(SA_FIELDS, done='bool')}, class_modules={'StartUp': F, 'SystemAction': F},
         hooks={'getattr': sa_getattr, 'setattr': su_setattr, 'iterate': sa_iterate, 'to_list': sa_to_list}, policies={'SystemAction._do_action': do_pol}, native=False)


# ---- _do_action ----------------------------------------------------------------------------------------------------------------
def do_action_post(c):
    calls = [e for e in c.trace if e[0] == 'called']
    looked = [e for e in c.trace if e[0] == 'entry-of']
    if not calls:
        return z3.Not(REGISTERED)                                            # removed meanwhile: not called
    if len(calls) != 1 or len(looked) != 1 or looked[0][1] is not c._params['action']:
        return z3.BoolVal(False)
    _, f, a, kw = calls[0]
    ok = (f is c._params['action'] and len(a) == 1 and a[0].k == 'star' and a[0].extra['seq'].k == 'obj'
          and a[0].extra['seq'].oid == 'registered-args' and set(kw) == {'**'} and kw['**'].k == 'obj'
          and kw['**'].oid == 'registered-kwargs')
    return z3.And(REGISTERED, z3.BoolVal(bool(ok)))                          # once, with ITS registered arguments


contract(F, 'SystemAction._do_action', props=('C18',), params={'cls': 'cls', 'action': 'obj'},
         ensures=[('still-registered:called-once-with-its-registered-arguments;removed:not-called', do_action_post)],
         fields={'SystemAction': SA_FIELDS}, class_modules={'SystemAction': F},
         hooks={'contains': sa_contains, 'getitem': sa_getitem, 'call': sa_call},
         opts={'star_in_display_to_ghost': True}, native=False)


# ---- add / remove -------------------------------------------------------------------------------------------------------------
def args_kind(eng, name):
    return V('seq', extra={'len': z3.Int('args.len'), 'facts': [z3.Int('args.len') >= 0], 'callers-args': True,
                           'get': (lambda e_, i, s_: V('any', z3.Function('caller_arg', z3.IntSort(), VV.Any)(i)))})


def add_post(c):
    files = [e for e in c.trace if e[0] == 'file']
    if len(files) != 1 or [e for e in c.trace if e[0] in ('unfile', 'called')]:
        return z3.BoolVal(False)
    _, key, val = files[0]
    items = val.items if val.k == 'tuple' else None
    ok = key is c._params['action'] and items is not None and len(items) == 2 \
        and items[0] is c._params['args'] and items[1] is c._params['kwargs']
    return z3.BoolVal(bool(ok))


contract(F, 'SystemAction.add', props=('C18',), params={'cls': 'cls', 'action': 'obj', 'args': args_kind, 'kwargs': 'obj'},
         ensures=[('filed-under-itself-with-the-callers-arguments,nothing-else', add_post)],
         fields={'SystemAction': SA_FIELDS}, class_modules={'SystemAction': F},
         hooks={'setitem': sa_setitem, 'delitem': sa_delitem, 'call': sa_call}, native=False)


def remove_post(c):
    un = [e for e in c.trace if e[0] == 'unfile']
    if [e for e in c.trace if e[0] in ('file', 'called')] or len(un) > 1:
        return z3.BoolVal(False)
    if not un:
        return z3.Not(REGISTERED)
    return z3.And(REGISTERED, z3.BoolVal(un[0][1] is c._params['action']))


contract(F, 'SystemAction.remove', props=('C18',), params={'cls': 'cls', 'action': 'obj'},
         ensures=[('deleted-iff-registered,nothing-else', remove_post)],
         fields={'SystemAction': SA_FIELDS}, class_modules={'SystemAction': F},
         hooks={'contains': sa_contains, 'setitem': sa_setitem, 'delitem': sa_delitem, 'call': sa_call}, native=False)


# ---- StartUp.defer ---------------------------------------------------------------------------------------------------------------
def add_pol(eng, selfv, args, kwargs, st, node):
    st.trace.append(('add', tuple(args), dict(kwargs)))
    return [(st, NONE)]


def passes_callers(c, a, kw, lead=()):
    a = list(a)
    if len(a) != len(lead) + 1 or any(x is not y for x, y in zip(a, lead)):
        return False
    s = a[-1]
    return s.k == 'star' and s.extra['seq'] is c._params['args'] and set(kw) == {'**'} and kw['**'] is c._params['kwargs']


def defer_post(c):
    calls = [e for e in c.trace if e[0] == 'called']
    adds = [e for e in c.trace if e[0] == 'add']
    done = c.pre.cls('StartUp').done
    if len(calls) == 1 and not adds:
        return z3.And(done, z3.BoolVal(calls[0][1] is c._params['action'] and passes_callers(c, calls[0][2], calls[0][3])))
    if len(adds) == 1 and not calls:
        return z3.And(z3.Not(done), z3.BoolVal(passes_callers(c, adds[0][1], adds[0][2], (c._params['action'],))))
    return z3.BoolVal(False)


contract(F, 'StartUp.defer', props=('C18',), params={'cls': 'cls', 'action': 'obj', 'args': args_kind, 'kwargs': 'obj'},
         ensures=[('after-start-up:called-now-once-with-the-callers-arguments;before:filed-with-them', defer_post)],
         fields={'StartUp': dict(SA_FIELDS, done='bool')}, class_modules={'StartUp': F, 'SystemAction': F},
         hooks={'call': sa_call}, policies={'SystemAction.add': add_pol}, modifies=[], native=False)


# ---- CmdPeriod.run / hard_run ---------------------------------------------------------------------------------------------
# the registered actions run from one snapshot, in order, each through _do_action.  What else a reset does (clocks
# cleared, servers freed, era counted) is outside C18 and not demanded; those calls are ghost events without a clause.
def cp_ext(tag):
    def pol(eng, selfv, args, kwargs, st, node):
        st.trace.append((tag, tuple(args)))
        return [(st, NONE)]
    return pol


def cp_getattr(eng, obj, name, st, node):
    r = sa_getattr(eng, obj, name, st, node)
    if r is not None:
        return r
    if obj.k in ('module', 'obj') and name in ('SystemClock', 'AppClock', 'Server'):
        return [(st, V('obj', oid=name))]
    if obj.k == 'obj' and obj.oid in ('SystemClock', 'AppClock', 'Server'):
        def m(eng, a, kw, st, node, _o=obj.oid, _n=name):
            st.trace.append(('ext', _o, _n, tuple(a)))
            return [(st, NONE)]
        return [(st, V('func', py=('spec', m)))]
    return None


CP_FIELDS = dict(SA_FIELDS, era='int', clear_clocks='bool', free_servers='bool', free_remote='bool')
for _name, _hard in (('CmdPeriod.run', False), ('CmdPeriod.hard_run', True)):
    contract(F, _name, props=('C18',), params={'cls': 'cls'},
             ensures=[('one-snapshot-of-the-registry', run_post)],
             loops={0: Loop(**RUN_LOOP)},
             fields={'CmdPeriod': CP_FIELDS}, class_modules={'CmdPeriod': F, 'SystemAction': F},
             hooks={'getattr': cp_getattr, 'iterate': sa_iterate, 'to_list': sa_to_list},
             policies={'SystemAction._do_action': do_pol}, native=False)


# ---- ServerAction ----------------------------------------------------------------------------------------------------------------
# _servers: server (or 'default' / 'all') -> {action: (args, kwargs)}
HAS_SERVER = z3.Function('has_server_entry', z3.StringSort(), z3.BoolSort())
GROUP_KEY = z3.Function('group_action', z3.StringSort(), z3.IntSort(), VV.Any)
GROUP_LEN = z3.Function('group_len', z3.StringSort(), z3.IntSort())
IS_DEFAULT = z3.Bool('server_is_the_default_server')


def group_name(v):
    if v.k == 'str' and v.py is not None:
        return v.py
    if v.k in ('obj', 'none', 'any'):
        return 'server'
    return None


def sv_contains(eng, container, item, st, node):
    if is_registry(container, '_servers'):
        g = group_name(item)
        if g is None:
            raise Unsupported(node, 'server key')
        st.trace.append(('has-group?', g, item))
        return HAS_SERVER(z3.StringVal(g))
    return None


def sv_getitem(eng, obj, idx, st, node):
    if is_registry(obj, '_servers'):
        g = group_name(idx)
        st.trace.append(('group', g, idx))
        return [(st, V('obj', oid='group:' + g, extra={'group': g, 'key': idx}))]
    return None


def sv_getattr(eng, obj, name, st, node):
    if obj.k == 'obj' and obj.extra and 'group' in obj.extra and 'stage' not in obj.extra:
        g = obj.extra['group']
        if name == 'copy':
            def copy(eng, a, kw, st, node):
                st.trace.append(('snapshot', g))
                return [(st, V('obj', oid='copy-of:' + g, extra={'group': g, 'stage': 'copy'}))]
            return [(st, V('func', py=('spec', copy)))]
        if name in ('update', 'pop'):
            def m(eng, a, kw, st, node, _n=name):
                st.trace.append((_n, g, tuple(a)))
                return [(st, NONE)]
            return [(st, V('func', py=('spec', m)))]
    if obj.k == 'obj' and obj.extra and 'group' in obj.extra and name == 'items':
        g = obj.extra['group']
        marker = 'items-of-snapshot' if obj.extra.get('stage') == 'copy' else 'items-of-the-live-group'

        def items(eng, a, kw, st, node):
            gs = z3.StringVal(g)
            n = GROUP_LEN(gs)

            def get(e_, i, s_):
                return vtuple([V('obj', oid='action', extra={'group': g, 'index': i, 'z': GROUP_KEY(gs, i)}),
                               vtuple([V('obj', oid='args-of', extra={'group': g, 'index': i}),
                                       V('obj', oid='kwargs-of', extra={'group': g, 'index': i})])])
            return [(st, V('seq', extra={'len': n, 'facts': [n >= 0], marker: g, 'get': get}))]
        return [(st, V('func', py=('spec', items)))]
    if obj.k in ('module', 'obj') and name == 'Server':
        return [(st, V('obj', oid='Server'))]
    if obj.k == 'obj' and obj.oid == 'Server' and name == 'default':
        return [(st, V('obj', oid='Server.default'))]
    return None


def sv_compare(eng, op, a, b, st, node):
    import ast as _a
    if isinstance(op, (_a.Is, _a.IsNot)):
        for p, q in ((a, b), (b, a)):
            if p.k == 'obj' and p.oid == 'Server.default':
                return z3.Not(IS_DEFAULT) if isinstance(op, _a.IsNot) else IS_DEFAULT
    return None


def sv_call(eng, f, args, kwargs, st, node):
    if f.k == 'obj' and f.oid == 'action':
        st.trace.append(('called', f, tuple(args), dict(kwargs)))
        return [(st, NONE)]
    return None


def sv_pass(group):
    def inv(c, L):
        ev = since_head(c.trace)
        if not ev:
            return z3.BoolVal(True)
        calls = [e for e in ev if e[0] == 'called']
        if len(calls) != 1 or [e for e in ev if e[0] in ('update', 'pop', 'snapshot')]:
            return z3.BoolVal(False)
        _, f, a, kw = calls[0]
        g = f.extra.get('group')
        ok = (len(a) == 2 and a[0] is c._params['server'] and a[1].k == 'star' and a[1].extra['seq'].k == 'obj'
              and a[1].extra['seq'].oid == 'args-of' and a[1].extra['seq'].extra['group'] == g
              and set(kw) == {'**'} and kw['**'].k == 'obj' and kw['**'].oid == 'kwargs-of' and kw['**'].extra['group'] == g)
        if not ok:
            return z3.BoolVal(False)
        i = f.extra['index']
        # the action of THIS pass, with the arguments registered with it, the server first
        return z3.And(i == L.i - 1, a[1].extra['seq'].extra['index'] == i, kw['**'].extra['index'] == i)
    return inv


def sv_over(c, seq, k, elem):
    ok = seq.k == 'seq' and seq.extra.get('items-of-snapshot') is not None
    return z3.BoolVal(bool(ok)), z3.BoolVal(True)


def sv_run_post(c):
    t = c.trace
    snaps = [e[1] for e in t if e[0] == 'snapshot']
    has = lambda g: HAS_SERVER(z3.StringVal(g))
    want = []
    cl = []
    # which groups run, and in which order: the server's own, 'default' (for the default server), 'all'
    cl.append(z3.BoolVal('server' in snaps) == has('server'))
    cl.append(z3.BoolVal('default' in snaps) == z3.And(IS_DEFAULT, has('default')))
    cl.append(z3.BoolVal('all' in snaps) == has('all'))
    order = [g for g in snaps]
    rank = {'server': 0, 'default': 1, 'all': 2}
    cl.append(z3.BoolVal(all(g in rank for g in order) and [rank[g] for g in order if g in rank] == sorted(set(rank[g] for g in order if g in rank))))
    return z3.And(*cl)


contract(F, 'ServerAction.run', props=('C18',), params={'cls': 'cls', 'server': ['obj', 'none']},
         ensures=[('own-group,then-default-for-the-default-server,then-all:each-from-one-snapshot-iff-present', sv_run_post)],
         loops={0: Loop(inv=sv_pass('server'), over=sv_over), 1: Loop(inv=sv_pass('default'), over=sv_over),
                2: Loop(inv=sv_pass('all'), over=sv_over)},
         fields={'ServerAction': {'_servers': 'obj'}}, class_modules={'ServerAction': F},
         hooks={'contains': sv_contains, 'getitem': sv_getitem, 'getattr': sv_getattr, 'compare': sv_compare, 'call': sv_call},
         opts={'star_in_display_to_ghost': True}, native=False)


# ---- ServerAction.add / remove / remove_server -----------------------------------------------------------------------------
def sv_setitem(eng, obj, idx, v, st, node):
    if is_registry(obj, '_servers'):
        st.trace.append(('new-group', idx, v))
        return [('next', st)]
    return None


def sv_group_setitem(eng, obj, idx, v, st, node):
    r = sv_setitem(eng, obj, idx, v, st, node)
    if r is None and obj.k == 'obj' and obj.extra and 'group' in obj.extra and 'stage' not in obj.extra:
        st.trace.append(('update', obj.extra['group'], (V('dict', items=[(idx, v)]),)))     # group[action] = entry: the same thing
        return [('next', st)]
    return r


def sv_delitem(eng, obj, idx, st, node):
    if is_registry(obj, '_servers'):
        st.trace.append(('drop-group', idx))
        return [('next', st)]
    return None


def sv_has_now(st, g):
    return z3.BoolVal(True) if any(e[0] == 'new-group' for e in st.trace) else HAS_SERVER(z3.StringVal(g))


def sv_add_post(c):
    t = c.trace
    news = [e for e in t if e[0] == 'new-group']
    ups = [e for e in t if e[0] == 'update']
    if len(ups) != 1 or len(news) > 1 or [e for e in t if e[0] in ('pop', 'drop-group', 'called')]:
        return z3.BoolVal(False)
    has = HAS_SERVER(z3.StringVal('server'))
    cl = []
    if news:
        _, key, val = news[0]
        fresh = val.k in ('obj', 'dict') and (val.k == 'dict' or str(val.oid).startswith('new!dict!'))
        cl += [z3.Not(has), z3.BoolVal(key is c._params['server'] and bool(fresh) and t.index(news[0]) < t.index(ups[0]))]
    else:
        cl += [has]
    _, g, a = ups[0]
    grp = [e for e in t if e[0] == 'group']
    ok = bool(grp) and grp[-1][2] is c._params['server'] and len(a) == 1 and a[0].k == 'dict' and a[0].items is not None \
        and len(a[0].items) == 1
    if ok:
        (k, v), = a[0].items
        ok = k is c._params['action'] and v.k == 'tuple' and len(v.items) == 2 and v.items[0] is c._params['args'] \
            and v.items[1] is c._params['kwargs']
    cl.append(z3.BoolVal(bool(ok)))                       # filed under the action, in THIS server's group, with the caller's arguments
    return z3.And(*cl)


contract(F, 'ServerAction.add', props=('C18',),
         params={'cls': 'cls', 'server': 'obj', 'action': 'obj', 'args': args_kind, 'kwargs': 'obj'},
         ensures=[('a-group-of-its-own-on-first-use;filed-under-the-action-with-the-callers-arguments;nothing-else', sv_add_post)],
         fields={'ServerAction': {'_servers': 'obj'}}, class_modules={'ServerAction': F},
         hooks={'contains': sv_contains, 'getitem': sv_getitem, 'getattr': sv_getattr, 'setitem': sv_group_setitem,
                'delitem': sv_delitem, 'call': sv_call}, native=False)


def sv_remove_post(c):
    t = c.trace
    pops = [e for e in t if e[0] == 'pop']
    if [e for e in t if e[0] in ('update', 'drop-group', 'new-group', 'called')] or len(pops) > 1:
        return z3.BoolVal(False)
    has = HAS_SERVER(z3.StringVal('server'))
    if not pops:
        return z3.Not(has)
    grp = [e for e in t if e[0] == 'group']
    _, g, a = pops[0]
    ok = bool(grp) and grp[-1][2] is c._params['server'] and len(a) == 2 and a[0] is c._params['action'] and a[1].k == 'none'
    return z3.And(has, z3.BoolVal(bool(ok)))              # discarded from THIS server's group; an unknown action is no error


contract(F, 'ServerAction.remove', props=('C18',), params={'cls': 'cls', 'server': 'obj', 'action': 'obj'},
         ensures=[('discarded-from-the-servers-group-if-there-is-one;nothing-else', sv_remove_post)],
         fields={'ServerAction': {'_servers': 'obj'}}, class_modules={'ServerAction': F},
         hooks={'contains': sv_contains, 'getitem': sv_getitem, 'getattr': sv_getattr, 'setitem': sv_group_setitem,
                'delitem': sv_delitem, 'call': sv_call}, native=False)


def sv_remove_server_post(c):
    t = c.trace
    drops = [e for e in t if e[0] == 'drop-group']
    if [e for e in t if e[0] in ('update', 'pop', 'new-group', 'called')] or len(drops) > 1:
        return z3.BoolVal(False)
    has = HAS_SERVER(z3.StringVal('server'))
    if not drops:
        return z3.Not(has)
    return z3.And(has, z3.BoolVal(drops[0][1] is c._params['server']))


contract(F, 'ServerAction.remove_server', props=('C18',), params={'cls': 'cls', 'server': 'obj'},
         ensures=[('group-dropped-iff-there-is-one;nothing-else', sv_remove_server_post)],
         fields={'ServerAction': {'_servers': 'obj'}}, class_modules={'ServerAction': F},
         hooks={'contains': sv_contains, 'getitem': sv_getitem, 'getattr': sv_getattr, 'setitem': sv_group_setitem,
                'delitem': sv_delitem, 'call': sv_call}, native=False)
