"""Contracts for the low-level OSC builders (C06: "conforms to OSC 1.0": address, type tag string, arguments in
order): sc3/base/_osclib.py.

  OscMessageBuilder._get_arg_type   the type tag of a value by its dynamic type: str s, bytes-like b, True T,
                                    False F, int i, float f, 4-tuple m, None N; anything else is refused
  OscMessageBuilder.build           an empty address is refused; the datagram is, in THIS order: the address string,
                                    the type tag string (',' + the tags of the arguments in argument order; ',' alone
                                    for no arguments), and then for EVERY argument in order exactly the encoding its
                                    tag names (s string, i int, f float, d double, b blob, r rgba, m midi) of ITS value,
                                    appended at the end - nothing for T, F, [, ], N; an unknown tag is refused; a value
                                    its encoder refuses makes the whole build fail (OscMessageBuildError)
  OscBundleBuilder.build            '#bundle\\0', the time tag, and for EVERY content in order its size as int32
                                    followed by its datagram; anything that is neither message nor bundle is refused

The encoders write_* are ghost calls here (their size and refusal laws: base_osclib); a datagram is the list of the
pieces appended to it (ghost), so "in this order, at the end, once" is checked on that list.
"""
import ast
import z3
from vf.pyvc.spec import contract, Loop, REGISTRY
from vf.pyvc.values import *
from vf.pyvc import values as VV
from vf.pyvc.engine import Raised, Unsupported

F = 'sc3/base/_osclib.py'
TAGCONST = {'ARG_TYPE_FLOAT': 'f', 'ARG_TYPE_DOUBLE': 'd', 'ARG_TYPE_INT': 'i', 'ARG_TYPE_STRING': 's', 'ARG_TYPE_BLOB': 'b',
            'ARG_TYPE_RGBA': 'r', 'ARG_TYPE_MIDI': 'm', 'ARG_TYPE_TRUE': 'T', 'ARG_TYPE_FALSE': 'F', 'ARG_TYPE_NIL': 'N',
            'ARG_TYPE_ARRAY_START': '[', 'ARG_TYPE_ARRAY_STOP': ']'}
WRITER = {'s': 'write_string', 'i': 'write_int', 'f': 'write_float', 'd': 'write_double', 'b': 'write_blob',
          'r': 'write_rgba', 'm': 'write_midi'}
NARGS = z3.Int('args.len')
TAG = z3.Function('arg_tag', z3.IntSort(), VV.Any)
VAL = z3.Function('arg_value', z3.IntSort(), VV.Any)


def piece(eng, what, arg):
    return V('bytes', py=None, extra={'len': eng.fresh('piece.len', z3.IntSort()), 'has_nul': z3.BoolVal(False),
                                      'parts': [('piece', what, arg)], 'facts': []})


def writer_pol(name):
    def pol(eng, selfv, args, kwargs, st, node):
        ok, bad = st, st.fork()
        p = piece(eng, name, args[0])
        ok.pc.append(p.extra['len'] >= 0)
        ok.trace.append(('write', name, args[0], p))
        bad.trace.append(('write-refused', name, args[0]))
        return [(ok, p), (bad, Raised(eng.make_exc('OscTypeBuildError', node=node)))]
    return pol


def parts_of(v):
    if v.k != 'bytes':
        return None
    if v.extra and 'parts' in v.extra:
        return v.extra['parts']
    if v.py is not None:
        return [] if v.py == b'' else [('const', v.py)]
    return [('opaque', id(v))]


def h_binop(eng, op, a, b, st, node):
    if isinstance(op, ast.Add) and a.k == 'bytes' and b.k == 'bytes':
        pa, pb = parts_of(a), parts_of(b)
        return [(st, V('bytes', py=None, extra={'len': eng.bytes_len(a) + eng.bytes_len(b),
                                                'has_nul': z3.Or(eng.bytes_has_nul(a), eng.bytes_has_nul(b)),
                                                'parts': pa + pb}))]
    if isinstance(op, ast.Add) and a.k == 'str' and a.py == ',' and b.k == 'obj' and b.extra and 'joined' in b.extra:
        return [(st, V('obj', oid='comma+tags', extra={'comma_tags': b.extra['joined']}))]
    return None


def h_getattr(eng, obj, name, st, node):
    if obj.k == 'ref' and obj.oid == 'self' and name in TAGCONST:
        return [(st, vstr(TAGCONST[name]))]
    if obj.k == 'str' and obj.py == '' and name == 'join':
        def join(eng, a, kw, st, node):
            return [(st, V('obj', oid='joined', extra={'joined': a[0]}))]
        return [(st, V('func', py=('spec', join)))]
    return None


def h_construct(eng, f, args, kwargs, st, node):
    if f.k == 'class' and f.py in ('OscMessage', 'OscBundle'):
        r = V('obj', oid='the-' + f.py)
        st.trace.append(('made', f.py, args[0]))
        return [(st, r)]
    return None


def args_kind(eng, name):
    return V('seq', extra={'len': NARGS, 'facts': [NARGS >= 0], 'the_args': True,
                           'get': (lambda e_, i, s_: vtuple([V('any', TAG(i)), V('any', VAL(i))]))})


def since(trace):
    idx = -1
    for i, e in enumerate(trace):
        if e[0] == 'loop-head':
            idx = i
    return trace[idx + 1:] if idx >= 0 else []


def remember_dgram(eng, st):
    st.ghost = dict(st.ghost)
    st.ghost['dgram_at_head'] = st.env.get('dgram')


def is_tag(eng, z, t):
    return z3.And(VV.tag_of(z) == TAGS['str'], eng.str_is(t)(z))


def head_dgram(eng, name):
    """the datagram at a loop head, by induction: address, tag string, and the encodings of the arguments before
    this pass - one ghost piece"""
    n = eng.fresh('dgram.len', z3.IntSort())
    return V('bytes', py=None, extra={'len': n, 'facts': [n >= 0], 'has_nul': z3.BoolVal(False), 'parts': [('so-far',)]})


def same_str(a, b):
    return a is b or (a.k == 'str' and b.k == 'str' and a.py is None and b.py is None and a.extra and b.extra
                      and z3.eq(a.extra['chars'], b.extra['chars']))


def prefix_ok(c, p):
    """[address string, tag string of the arguments]"""
    if p is None or len(p) != 2:
        return False
    addr, tags = p
    tv = tags[2] if len(tags) > 2 else None
    src = tv.extra.get('comma_tags') if tv is not None and tv.k == 'obj' and tv.extra else None
    return (addr[0] == 'piece' and addr[1] == 'write_string' and same_str(addr[2], c.pre.self.v('_address'))
            and tags[0] == 'piece' and tags[1] == 'write_string' and src is not None and src.k == 'seq'
            and bool(src.extra.get('tag_map')))


def msg_pass(c, L):
    if L.phase == 'entry':
        return z3.BoolVal(bool(prefix_ok(c, parts_of(c.st.env['dgram']))))      # the loop starts from address + tag string
    if L.phase != 'after':
        return z3.BoolVal(True)
    eng = c._eng
    ev = [e for e in since(c.trace) if e[0] in ('write', 'write-refused', 'made')]
    k = L.i - 1
    head = c.st.ghost.get('dgram_at_head')
    now = c.st.env['dgram']
    hp, np_ = parts_of(head), parts_of(now)
    if hp is None or np_ is None or np_[:len(hp)] != hp:
        return z3.BoolVal(False)                                         # what was there stays in front
    added = np_[len(hp):]
    nodata = z3.Or(*[is_tag(eng, TAG(k), t) for t in ('T', 'F', '[', ']', 'N')])
    if not ev:
        return z3.And(z3.BoolVal(added == []), nodata)                    # a tag without data: nothing is written
    if len(ev) != 1 or ev[0][0] != 'write' or len(added) != 1 or added[0] != ev[0][3].extra['parts'][0]:
        return z3.BoolVal(False)                                         # one encoding, appended at the end
    name, val = ev[0][1], ev[0][2]
    tags = [t for t, w in WRITER.items() if w == name]
    if len(tags) != 1 or val.k != 'any':
        return z3.BoolVal(False)
    return z3.And(is_tag(eng, TAG(k), tags[0]), val.z == VAL(k))          # the encoder the tag names, of THIS argument's value


def all_args(c, sq, k, elem):
    ok = elem.k == 'tuple' and len(elem.items) == 2 and all(x.k == 'any' for x in elem.items)
    if not ok:
        return z3.BoolVal(False), z3.BoolVal(False)
    return sq.extra['len'] == NARGS, z3.And(elem.items[0].z == TAG(k), elem.items[1].z == VAL(k))


def msg_post(c):
    made = [e for e in c.trace if e[0] == 'made']
    if len(made) != 1 or made[0][1] != 'OscMessage' or c.resultv.k != 'obj' or c.resultv.oid != 'the-OscMessage':
        return z3.BoolVal(False)
    p = parts_of(made[0][2])
    heads = [e for e in c.trace if e[0] == 'loop-head']
    if p is None:
        return z3.BoolVal(False)
    if not heads:
        ok = (len(p) == 2 and p[0][0] == 'piece' and p[0][1] == 'write_string' and same_str(p[0][2], c.pre.self.v('_address'))
              and p[1][0] == 'piece' and p[1][1] == 'write_string' and p[1][2].k == 'str' and p[1][2].py == ',')
        return z3.And(z3.BoolVal(bool(ok)), NARGS == 0)
    # after the loop: exactly what the induction built (entry: address + tag string; every pass: its argument appended)
    return z3.And(z3.BoolVal(p == [('so-far',)]), NARGS > 0)


def h_listcomp(eng, e, it, st, node):
    # [arg[0] for arg in self._args]: the tags of the arguments, in argument order
    if it.k == 'seq' and it.extra.get('the_args') and isinstance(e.elt, ast.Subscript) \
            and isinstance(e.elt.slice, ast.Constant) and e.elt.slice.value == 0 and not e.generators[0].ifs:
        return [(st, V('seq', extra={'len': NARGS, 'tag_map': True, 'get': (lambda e_, i, s_: V('any', TAG(i)))}))]
    return None


POL = {w: writer_pol(w) for w in list(WRITER.values()) + ['write_timetag']}
contract(F, 'OscMessageBuilder.build', props=('C06',), params={'self': 'self'},
         requires=lambda c: NARGS >= 0,
         raises={'OscMessageBuildError': None},
         ensures=[('address,then-the-tag-string-of-the-arguments,then-the-arguments;returned-as-a-message', msg_post)],
         loops={0: Loop(inv=msg_pass, over=all_args, kinds={'dgram': head_dgram, 'arg_type': 'any', 'value': 'any'},
                        havoc_hook=remember_dgram)},
         fields={'OscMessageBuilder': {'_address': 'str', '_args': args_kind}}, class_modules={'OscMessageBuilder': F},
         hooks={'binop': h_binop, 'getattr': h_getattr, 'construct': h_construct, 'listcomp': h_listcomp},
         policies=POL, native=False,
         note='the datagram is the ghost list of the pieces appended to it; the first two pieces are checked at the end, '
              'every argument piece by the loop invariant; the encoders themselves: base_osclib')


# ---- _get_arg_type ------------------------------------------------------------------------------------------------
def gat_post(c):
    r = c.resultv
    v = c.arg_value if False else c._params['arg_value'].z
    t = VV.tag_of(v)
    if r.k != 'str' or r.py is None:
        return z3.BoolVal(False)
    want = {'s': t == TAGS['str'],
            'b': z3.Or(t == TAGS['bytes'], t == TAGS['bytearray'], t == TAGS['memoryview']),
            'T': z3.And(t == TAGS['bool'], VV.any_bool(v)), 'F': z3.And(t == TAGS['bool'], z3.Not(VV.any_bool(v))),
            'i': t == TAGS['int'], 'f': t == TAGS['float'],
            'm': z3.And(t == TAGS['tuple'], VV.any_len(v) == 4), 'N': t == TAGS['none']}
    return want.get(r.py, z3.BoolVal(False))


def gat_compare(eng, op, a, b, st, node):
    # `x is True` / `x is False` on a dynamic value
    if isinstance(op, ast.Is):
        for p, q in ((a, b), (b, a)):
            if p.k == 'any' and q.k == 'bool' and z3.is_bool(q.z) and (z3.is_true(q.z) or z3.is_false(q.z)):
                return z3.And(VV.tag_of(p.z) == TAGS['bool'], VV.any_bool(p.z) == q.z)
    return None


contract(F, 'OscMessageBuilder._get_arg_type', props=('C06',), params={'self': 'self', 'arg_value': 'any'},
         requires=lambda c: VV.tag_of(c._params['arg_value'].z) != TAGS['list'],
         raises={'ValueError': lambda c: z3.And(*[VV.tag_of(c._params['arg_value'].z) != TAGS[k] for k in
                                                  ('str', 'bytes', 'bytearray', 'memoryview', 'bool', 'int', 'float', 'none')] +
                                                [z3.Not(z3.And(VV.tag_of(c._params['arg_value'].z) == TAGS['tuple'],
                                                               VV.any_len(c._params['arg_value'].z) == 4))])},
         ensures=[('the-tag-of-the-dynamic-type', gat_post)],
         fields={'OscMessageBuilder': {}}, class_modules={'OscMessageBuilder': F},
         hooks={'getattr': h_getattr, 'compare': gat_compare}, native=False,
         note='lists (guessed element by element, recursively) are not a case sc3 produces: excluded')


# ---- OscBundleBuilder.build -----------------------------------------------------------------------------------------
NCONT = z3.Int('contents.len')
CONT = z3.Function('content', z3.IntSort(), VV.Any)
IS_MSG = z3.Function('content_is_message', VV.Any, z3.BoolSort())
IS_BND = z3.Function('content_is_bundle', VV.Any, z3.BoolSort())


def contents_kind(eng, name):
    return V('seq', extra={'len': NCONT, 'facts': [NCONT >= 0],
                           'get': (lambda e_, i, s_: V('any', CONT(i), extra={'content': i}))})


def bb_builtin(eng, name, args, kwargs, st, node):
    if name == 'type' and len(args) == 1 and args[0].k == 'any':
        return [(st, V('obj', oid='type-of-content', extra={'type_of': args[0]}))]
    return None


def bb_compare(eng, op, a, b, st, node):
    if isinstance(op, ast.Is):
        for p, q in ((a, b), (b, a)):
            if p.k == 'obj' and p.extra and 'type_of' in p.extra and q.k == 'class' and q.py in ('OscMessage', 'OscBundle'):
                f = IS_MSG if q.py == 'OscMessage' else IS_BND
                return f(p.extra['type_of'].z)
    return None


def bb_getattr(eng, obj, name, st, node):
    if obj.k == 'any' and obj.extra and 'content' in obj.extra and name in ('size', 'dgram'):
        if name == 'size':
            return [(st, V('any', z3.Function('content_size', VV.Any, VV.Any)(obj.z), extra={'size_of': obj}))]
        n = z3.Function('content_dgram_len', VV.Any, z3.IntSort())(obj.z)
        st.pc.append(n >= 0)
        return [(st, V('bytes', py=None, extra={'len': n, 'has_nul': z3.BoolVal(False), 'parts': [('dgram-of', obj)]}))]
    return None


def bundle_head(eng, name):
    n = eng.fresh('bundle.len', z3.IntSort())
    return V('bytes', py=None, extra={'len': n, 'facts': [n >= 0], 'has_nul': z3.BoolVal(True), 'parts': [('so-far',)]})


def bundle_pass(c, L):
    if L.phase == 'entry':
        p = parts_of(c.st.env['dgram'])
        ok = (p is not None and len(p) == 2 and p[0][0] == 'const' and p[0][1] == b'#bundle\x00'
              and p[1][0] == 'piece' and p[1][1] == 'write_timetag' and p[1][2] is not None
              and (p[1][2] is c.pre.self.v('_timetag') or (p[1][2].k == c.pre.self.v('_timetag').k
                                                         and p[1][2].oid == c.pre.self.v('_timetag').oid)))
        return z3.BoolVal(bool(ok))                                          # '#bundle' NUL, then THE time tag
    if L.phase != 'after':
        return z3.BoolVal(True)
    k = L.i - 1
    head, now = c.st.ghost.get('dgram_at_head'), c.st.env['dgram']
    hp, np_ = parts_of(head), parts_of(now)
    if hp is None or np_ is None or np_[:len(hp)] != hp or len(np_) != len(hp) + 2:
        return z3.BoolVal(False)
    size_piece, body = np_[len(hp):]
    ok = (size_piece[0] == 'piece' and size_piece[1] == 'write_int' and size_piece[2].k == 'any' and size_piece[2].extra
          and size_piece[2].extra.get('size_of') is not None and body[0] == 'dgram-of')
    if not ok:
        return z3.BoolVal(False)
    return z3.And(size_piece[2].extra['size_of'].z == CONT(k), body[1].z == CONT(k),     # size of THIS element, then ITS bytes
                  z3.Or(IS_MSG(CONT(k)), IS_BND(CONT(k))))


def all_contents(c, sq, k, elem):
    return sq.extra['len'] == NCONT, (elem.z == CONT(k) if elem.k == 'any' else z3.BoolVal(False))


def bundle_post(c):
    made = [e for e in c.trace if e[0] == 'made']
    if len(made) != 1 or made[0][1] != 'OscBundle':
        return z3.BoolVal(False)
    return z3.BoolVal(parts_of(made[0][2]) == [('so-far',)])


contract(F, 'OscBundleBuilder.build', props=('C06',), params={'self': 'self'},
         raises={'OscBundleBuildError': None},
         ensures=[('prefix,time-tag,then-every-element-as-size+bytes-in-order;returned-as-a-bundle', bundle_post)],
         loops={0: Loop(inv=bundle_pass, over=all_contents, kinds={'dgram': bundle_head, 'content': 'any', 'size': 'any'},
                        havoc_hook=remember_dgram)},
         fields={'OscBundleBuilder': {'_timetag': 'obj', '_contents': contents_kind}}, class_modules={'OscBundleBuilder': F},
         hooks={'binop': h_binop, 'getattr': bb_getattr, 'construct': h_construct, 'builtin_first': bb_builtin,
                'compare': bb_compare},
         policies=POL, native=False)
