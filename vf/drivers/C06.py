"""C06 -- OSC encoding round-trips, conforms to OSC 1.0 and is sized correctly.

Bounded run-time contracts on the real sc3 functions, against the independent
OSC 1.0 codec vf/specs/osc10.py.

Sub-checks (``--only``):
  types      write_*/get_* of sc3.base._osclib on value grids
  builders   OscMessageBuilder / OscBundleBuilder (explicit types, arrays,
             nested bundles, time tags)
  messages   exhaustive argument lists over the alphabet through
             OscInterface._build_msg: conformance, sc3's own decoder, refusal,
             NetAddr._calc_msg_dgram_size
  nested     generated messages/bundles nested to depth 4 through
             _build_msg/_build_bundle, _calc_bndl_dgram_size
  straddle   predicted vs real size of datagrams around 65504 +- 8 and the
             SynthDef._do_send decision
  clump      NetAddr._clump_bundle, send_clumped_bundles and sync()

What the contract leaves open (statement does not say): whether an empty blob
is accepted (sc3 refuses it; both outcomes are fine, a wrong encoding is not);
addresses that do not begin with '/'; tuples (MIDI), doubles and the T/F/N
tags of the low-level builder; time tags of the clumps (C07); empty clumps.
"""
import hashlib
import json
import itertools
import math
import multiprocessing
import os
import random
import warnings

from vf.common import driver_main, wants, silence_sc3_logging
from vf.specs import osc10 as O

LIMIT = 65504        # NetAddr._MAX_UDP_DGRAM_SIZE (the library's own limit)
UDP_MAX = 65507      # largest UDP payload over IPv4
NPROC = min(16, os.cpu_count() or 1)


# ------------------------------------------------------------ case <-> JSON --

class _Unsupported:
    def __repr__(self):
        return '<object>'


def enc(x):
    """Python case value -> JSON-able description (inverse: dec)."""
    if x is None or isinstance(x, (bool, str)):
        return x
    if isinstance(x, int):
        return x
    if isinstance(x, float):
        return x if math.isfinite(x) else {'f': repr(x)}
    if isinstance(x, (bytes, bytearray)):
        if len(x) > 16 and not any(x):
            return {'zb': len(x)}
        return {'b': bytes(x).hex()}
    if isinstance(x, memoryview):
        return {'mv': bytes(x).hex()}
    if isinstance(x, list):
        return [enc(v) for v in x]
    if isinstance(x, dict):
        return x if x else {'u': 'dict'}     # non-empty dicts are case descriptors
    if isinstance(x, set):
        return {'u': 'set'}
    if isinstance(x, complex):
        return {'u': 'complex'}
    return {'u': 'object'}


def dec(x):
    if isinstance(x, list):
        return [dec(v) for v in x]
    if isinstance(x, dict):
        if 'groups' in x:
            return x
        if 'f' in x:
            return float(x['f'])
        if 'b' in x:
            return bytes.fromhex(x['b'])
        if 'zb' in x:
            return bytes(x['zb'])
        if 'mv' in x:
            return memoryview(bytes.fromhex(x['mv']))
        if 'rep' in x:                       # ['a', 640] -> 'a' * 640
            return x['rep'][0] * x['rep'][1]
        if 'u' in x:
            return {'dict': {}, 'set': set(), 'complex': 1j}.get(x['u'], _Unsupported())
    return x


def _short(x, n=160):
    s = repr(x)
    return s if len(s) <= n else s[:n] + '...(%d chars)' % len(s)


# ----------------------------------------------------------------- sc3 side --

_S = {}


def sc():
    if not _S:
        silence_sc3_logging()
        warnings.simplefilter('ignore')
        import sc3
        sc3.init('nrt')
        from sc3.base import _osclib as oli
        from sc3.base import _oscinterface as osci
        from sc3.base.main import main
        from sc3.base.netaddr import NetAddr
        from sc3.base import stream as stm
        from sc3.synth.synthdef import SynthDef
        _S.update(oli=oli, osci=osci, main=main, iface=main._osc_interface,
                  NetAddr=NetAddr, addr=NetAddr('127.0.0.1', 57110), stm=stm,
                  SynthDef=SynthDef)
    return _S


def fail(obligation, key, what, case, observed=None, expected=None, func='msg'):
    e = enc(case)
    return {'obligation': obligation, 'key': key, 'what': what, 'input': e,
            'observed': observed, 'expected': expected,
            'replay': {'func': func, 'args': json.dumps(e)}, 'size': len(repr(e))}


# ------------------------------------------------------- input classification --

def _walk(x):
    yield x
    if isinstance(x, list):
        for v in x:
            yield from _walk(v)


def refusal_class(lst, is_bundle=False):
    """Why the oracle says the list has to be refused (stable key suffix)."""
    if not is_bundle:
        if not isinstance(lst[0], str) or not lst[0]:
            return 'address'
    for v in _walk(lst):
        if isinstance(v, str) and '\x00' in v:
            return 'nul-in-string'
    for v in _walk(lst):
        if isinstance(v, int) and not isinstance(v, bool) \
                and not O.INT32_MIN <= v <= O.INT32_MAX:
            return 'int-range'
        if isinstance(v, float) and math.isfinite(v) and math.isinf(O.to_float32(v)):
            return 'float-range'
    return 'unsupported-type'


def has_empty_blob(lst):
    return any(isinstance(v, (bytes, bytearray, memoryview)) and len(v) == 0
               for v in _walk(lst))


def _is_num(x):
    return isinstance(x, (int, float)) and not isinstance(x, bool)


def has_none_subbundle(x, inside_bundle=False):
    """A None-headed bundle list in element position of a bundle list."""
    if not isinstance(x, list) or not x:
        return False
    if isinstance(x[0], str):                      # message: look into list args
        return any(has_none_subbundle(a, False) for a in x[1:] if isinstance(a, list))
    if x[0] is None or _is_num(x[0]):              # bundle
        if inside_bundle and x[0] is None:
            return True
        return any(has_none_subbundle(e, True) for e in x[1:] if isinstance(e, list))
    return False


def has_nonascii_address(x):
    if not isinstance(x, list) or not x:
        return False
    if isinstance(x[0], str):
        if not x[0].isascii():
            return True
        return any(has_nonascii_address(a) for a in x[1:] if isinstance(a, list))
    return any(has_nonascii_address(e) for e in x[1:] if isinstance(e, list))


def sizer_key(exc, lst):
    if isinstance(exc, UnicodeError) and has_nonascii_address(lst):
        return 'C06.sizing:raises-on-nonascii-address'
    if isinstance(exc, ValueError) and not isinstance(exc, UnicodeError) and lst \
            and has_none_subbundle(lst if not isinstance(lst[0], list) else [None] + lst):
        return 'C06.sizing:raises-on-none-subbundle'
    return 'C06.sizing:raises-on-accepted'


def messages_in(x):
    """All message lists at element position inside a bundle/element list."""
    out = []
    for e in x:
        if isinstance(e, list) and e:
            if isinstance(e[0], str):
                out.append(e)
            else:
                out.extend(messages_in(e[1:]))
    return out


# -------------------------------------------------------------- the contracts --

def clone(x):
    """Copy of the list structure (memoryviews cannot be deep-copied)."""
    return [clone(v) for v in x] if isinstance(x, list) else x


def real_msg(msg):
    s = sc()
    return bytes(s['iface']._build_msg(0.0, clone(msg)).dgram)


def real_bundle(bndl):
    s = sc()
    return bytes(s['iface']._build_bundle(0.0, clone(bndl)).dgram)


def predicted_msg(msg):
    return sc()['addr']._calc_msg_dgram_size(clone(msg))


def predicted_bndl(elements):
    return sc()['addr']._calc_bndl_dgram_size(clone(elements))


def msg_underestimated(msg):
    """True iff the sizer answers below the real size for this message."""
    try:
        return predicted_msg(msg) < len(real_msg(msg))
    except Exception:
        return False


def msg_sizer_raises(msg):
    try:
        real_msg(msg)
    except Exception:
        return None
    try:
        predicted_msg(msg)
    except Exception as e:
        return e
    return None


def check_conformance(dgram, exp, case, func, what):
    """sc3 bytes decode with the independent reader to the coerced input and
    re-encode to the same bytes."""
    fails = []
    ob = 'C06.conformance'
    if len(dgram) % 4:
        fails.append(fail(ob, 'C06.conformance:alignment',
                          '%s: datagram length %d is not a multiple of 4' % (what, len(dgram)),
                          case, len(dgram), 'multiple of 4', func))
    try:
        got = O.decode(dgram)
    except O.DecodeError as e:
        fails.append(fail(ob, 'C06.conformance:not-osc10',
                          '%s: bytes are not well-formed OSC 1.0: %s' % (what, e),
                          case, dgram.hex()[:400], O.encode(exp).hex()[:400], func))
        return fails
    if not O.same(got, exp):
        fails.append(fail(ob, 'C06.conformance:decodes-differently',
                          '%s: independent decoder reads a different packet' % what,
                          case, _short(got, 400), _short(exp, 400), func))
    elif O.encode(got) != dgram:
        fails.append(fail(ob, 'C06.conformance:non-canonical',
                          '%s: re-encoding the decoded packet gives other bytes' % what,
                          case, dgram.hex()[:400], O.encode(got).hex()[:400], func))
    return fails


def _sc3_form(x):
    oli = sc()['oli']
    if isinstance(x, oli.OscMessage):
        return ('m', x.address, list(x.params))
    return ('b', x.timetag, [_sc3_form(c) for c in x])


def _exp_form(x):
    if isinstance(x, O.Message):
        return ('m', x.address, O.nest_args(x))
    return ('b', x.timetag, [_exp_form(e) for e in x.elements])


def check_roundtrip(dgram, exp, case, func, what):
    """sc3's own parser (OscMessage/OscBundle, and OscPacket as used by
    _handle_request) gives back the same values."""
    oli = sc()['oli']
    ob = 'C06.roundtrip'
    fails = []
    try:
        if isinstance(exp, O.Message):
            got = _sc3_form(oli.OscMessage(dgram))
        else:
            got = _sc3_form(oli.OscBundle(dgram))
        pk = oli.OscPacket(dgram).messages
    except Exception as e:
        return [fail(ob, 'C06.roundtrip:parser-raises',
                     '%s: sc3 cannot parse its own datagram: %s: %s' % (what, type(e).__name__, e),
                     case, type(e).__name__, _short(_exp_form(exp), 400), func)]
    if not O.same(got, _exp_form(exp)):
        fails.append(fail(ob, 'C06.roundtrip:values-differ',
                          '%s: sc3 decodes its own datagram to other values' % what,
                          case, _short(got, 400), _short(_exp_form(exp), 400), func))
    # what _handle_request hands to the responders: [address, *params] + time
    got_pk = sorted(((tm.time, bytes(tm.message.dgram)) for tm in pk),
                    key=lambda p: (p[0] is not None, p[0] or 0, p[1]))
    if isinstance(exp, O.Message):
        exp_pk = [(None, O.encode(exp))]
    else:
        exp_pk = sorted(((t, O.encode(m)) for t, m in O.flatten_bundle(exp)),
                        key=lambda p: (True, p[0], p[1]))
    ok = len(got_pk) == len(exp_pk) and all(
        a[0] == b[0] and a[1] == b[1] for a, b in zip(got_pk, exp_pk))
    if ok:
        for tm in pk:
            lst = [tm.message.address, *tm.message.params]
            try:
                m = O.decode_message(bytes(tm.message.dgram))
            except O.DecodeError:
                continue                       # reported by the conformance clause
            if not O.same(lst, [m.address, *O.nest_args(m)]):
                ok = False
    if not ok and not fails:
        fails.append(fail(ob, 'C06.roundtrip:packet-messages',
                          '%s: OscPacket(dgram).messages differs from the messages sent' % what,
                          case, _short(got_pk, 400), _short(exp_pk, 400), func))
    return fails


def check_message(msg, stats=None):
    """All message-level clauses for one list ['/addr', arg...]."""
    case = msg
    fails = []
    try:
        exp = O.coerce_message(msg)
        exp_bytes = O.encode(exp)
    except O.OscError:
        exp = None
    raised = None
    try:
        dgram = real_msg(msg)
    except Exception as e:
        raised = e
    if stats is not None:
        stats['accepted' if raised is None else 'refused'] += 1
    if exp is None:
        if raised is None:
            cls = refusal_class(msg)
            try:
                back = _short(O.decode(dgram), 300)
            except O.DecodeError as e:
                back = 'not decodable: %s' % e
            fails.append(fail('C06.refusal', 'C06.refuse:' + cls,
                              'unrepresentable message %s is accepted and sent altered'
                              % _short(msg), case, back, 'an exception'))
        return fails
    if raised is not None:
        if has_empty_blob(msg):
            if stats is not None:
                stats['empty_blob_refused'] += 1
            return fails
        fails.append(fail('C06.accept', 'C06.accept:unexpected-refusal',
                          'representable message %s is refused: %s: %s'
                          % (_short(msg), type(raised).__name__, raised),
                          case, type(raised).__name__, exp_bytes.hex()[:400]))
        return fails
    if stats is not None:
        stats['digests'].add(hashlib.blake2b(dgram, digest_size=8).digest())
    what = '_build_msg(%s)' % _short(msg)
    fails += check_conformance(dgram, exp, case, 'msg', what)
    fails += check_roundtrip(dgram, exp, case, 'msg', what)
    # sizing
    try:
        pred = predicted_msg(msg)
    except Exception as e:
        fails.append(fail('C06.sizing', sizer_key(e, msg),
                          '_calc_msg_dgram_size(%s) raises %s: %s for a message that is '
                          'accepted for sending' % (_short(msg), type(e).__name__, e),
                          case, type(e).__name__, '>= %d' % len(dgram)))
        return fails
    if isinstance(pred, bool) or not isinstance(pred, int):
        fails.append(fail('C06.sizing', 'C06.sizing:not-int',
                          '_calc_msg_dgram_size(%s) is not an int' % _short(msg),
                          case, repr(pred), 'int'))
    elif pred < len(dgram):
        fails.append(fail('C06.sizing', 'C06.sizing:msg-underestimate',
                          '_calc_msg_dgram_size(%s) = %d < real datagram %d'
                          % (_short(msg), pred, len(dgram)), case, pred, len(dgram)))
    return fails


def check_bundle(bndl, stats=None):
    """All bundle-level clauses for one list [latency, element...]."""
    case = bndl
    fails = []
    try:
        exp = O.coerce_bundle(bndl)
        exp_bytes = O.encode(exp)
    except O.OscError:
        exp = None
    raised = None
    try:
        dgram = real_bundle(bndl)
    except Exception as e:
        raised = e
    if stats is not None:
        stats['accepted' if raised is None else 'refused'] += 1
    if exp is None:
        if raised is None:
            fails.append(fail('C06.refusal', 'C06.refuse:' + refusal_class(bndl, True),
                              'unrepresentable bundle %s is accepted' % _short(bndl),
                              case, dgram.hex()[:200], 'an exception', 'bundle'))
        return fails
    if raised is not None:
        if has_empty_blob(bndl):
            return fails
        fails.append(fail('C06.accept', 'C06.accept:unexpected-refusal',
                          'representable bundle %s is refused: %s: %s'
                          % (_short(bndl), type(raised).__name__, raised),
                          case, type(raised).__name__, exp_bytes.hex()[:400], 'bundle'))
        return fails
    if stats is not None:
        stats['digests'].add(hashlib.blake2b(dgram, digest_size=8).digest())
    what = '_build_bundle(%s)' % _short(bndl)
    fails += check_conformance(dgram, exp, case, 'bundle', what)
    fails += check_roundtrip(dgram, exp, case, 'bundle', what)
    elements = bndl[1:]
    try:
        pred = predicted_bndl(elements)
    except Exception as e:
        key = sizer_key(e, elements)
        if key == 'C06.sizing:raises-on-accepted':
            for m in messages_in(elements):
                e2 = msg_sizer_raises(m)
                if e2 is not None:
                    key = sizer_key(e2, m)
                    break
        fails.append(fail('C06.sizing', key,
                          '_calc_bndl_dgram_size(%s) raises %s: %s for elements that are '
                          'accepted for sending' % (_short(elements), type(e).__name__, e),
                          case, type(e).__name__, '>= %d' % len(dgram), 'bundle'))
        return fails
    if isinstance(pred, bool) or not isinstance(pred, int):
        fails.append(fail('C06.sizing', 'C06.sizing:not-int',
                          '_calc_bndl_dgram_size(%s) is not an int' % _short(elements),
                          case, repr(pred), 'int', 'bundle'))
    elif pred < len(dgram):
        key = 'C06.sizing:bndl-underestimate'
        if any(msg_underestimated(m) for m in messages_in(elements)):
            key = 'C06.sizing:msg-underestimate'
        fails.append(fail('C06.sizing', key,
                          '_calc_bndl_dgram_size(%s) = %d < real datagram %d'
                          % (_short(elements), pred, len(dgram)), case, pred, len(dgram),
                          'bundle'))
    return fails


# ------------------------------------------------------------------ messages --

ALPHABET = [
    0, 1, -1, 2 ** 31 - 1, -2 ** 31, 2 ** 31,
    0.5, -1e10, 1e39,
    '', 'a', 'abc', 'abcd', 'ñandú', 'x\x00y',
    b'', b'\x00', b'abc', b'abcd', b'abcde',
    True, False, None, [],
    ['/m', 1], ['/m', 'abc', b'xyz'], [0.0, ['/m', 1]], [None, ['/m']],
    '[', ']',
]
ADDRESSES = ['/a', '/abc', '/abcd', '/ñ']


def balanced(seq):
    d = 0
    for v in seq:
        if isinstance(v, str):
            if v == '[':
                d += 1
            elif v == ']':
                d -= 1
                if d < 0:
                    return False
    return d == 0


def _new_stats():
    return {'accepted': 0, 'refused': 0, 'empty_blob_refused': 0, 'digests': set()}


def _cap(fails, per_key=3):
    out = []
    cnt = {}
    for f in sorted(fails, key=lambda f: f['size']):
        if cnt.get(f['key'], 0) < per_key:
            cnt[f['key']] = cnt.get(f['key'], 0) + 1
            out.append(f)
    return out


REDUCED = [2 ** 31 - 1, 0.5, '', 'abc', 'abcd', 'ñandú', b'\x00', b'abcd', b'abcde', None, [],
           ['/m', 'abc', b'xyz'], [0.0, ['/m', 1]], '[', ']']


def _work_msgs(task):
    address, first, maxlen = task
    sc()
    stats = _new_stats()
    fails = []
    n = 0
    if first is None:
        seqs = [()]
    elif maxlen == 'reduced4':
        seqs = ((REDUCED[first],) + rest for rest in itertools.product(REDUCED, repeat=3))
    else:
        seqs = ((ALPHABET[first],) + rest
                for k in range(0, maxlen)
                for rest in itertools.product(ALPHABET, repeat=k))
    for seq in seqs:
        if not balanced(seq):
            continue
        n += 1
        fails += check_message([address, *seq], stats)
        if len(fails) > 200:
            fails = _cap(fails)
    return n, stats, _cap(fails)


def run_messages(rep, pool):
    if rep.tier == 'thorough':
        tasks = [(a, f, 4) for a in ADDRESSES for f in range(len(ALPHABET))]
        bound = ('all bracket-balanced argument lists of length <= 4 over the %d-value alphabet '
                 'x 4 addresses' % len(ALPHABET))
    else:
        tasks = [(a, f, 3) for a in ADDRESSES for f in range(len(ALPHABET))]
        tasks += [('/abc', f, 'reduced4') for f in range(len(REDUCED))]
        bound = ('all bracket-balanced argument lists of length <= 3 over the %d-value '
                 'alphabet x 4 addresses, and of length 4 over a %d-value sub-alphabet'
                 % (len(ALPHABET), len(REDUCED)))
    tasks += [(a, None, 0) for a in ADDRESSES]
    n = 0
    tot = _new_stats()
    fails = []
    for k, st, fl in pool.imap_unordered(_work_msgs, tasks, chunksize=1):
        n += k
        for key in ('accepted', 'refused', 'empty_blob_refused'):
            tot[key] += st[key]
        tot['digests'] |= st['digests']
        fails += fl
    extra = [
        # refusals that are not in the enumeration alphabet
        ['/a', {}], ['/a', _Unsupported()], ['/a', set()], ['/a', 1j],
        ['/a', [1, 2]], ['/a', [[1]]], ['/a', [0.5]],
        ['/a', -2 ** 31 - 1], ['/a', 2 ** 63], ['/a', -1e39], ['/a', 3.5e38],
        ['/a', 1.7976931348623157e308], ['/a', '\x00'], ['/a', 'abc\x00'],
        ['/a', ['/m', 'x\x00y']], ['/a', [0.0, ['/m', 2 ** 31]]], ['/a', ['/m', 1e39]],
        [None, 1], [1, 1], [b'/a', 1], ['', 1], [['/a'], 1], ['/a\x00b', 1],
        # representable values outside the alphabet
        ['/a', float('inf')], ['/a', float('-inf')], ['/a', float('nan')], ['/a', -0.0],
        ['/a', 3.4028234663852886e38], ['/a', 1e-46], ['/a', 0.1],
        ['/a', bytearray(b'ab')], ['/a', memoryview(b'abc')],
        ['/a', '日本語'], ['/a', '\U0001f3b5'], ['/abcdefg', 'abcdefg', b'abcdefg'],
    ]
    st = _new_stats()
    for m in extra:
        n += 1
        fails += check_message(m, st)
    for key in ('accepted', 'refused', 'empty_blob_refused'):
        tot[key] += st[key]
    tot['digests'] |= st['digests']
    rep.bounded(
        name='messages',
        function='sc3.base._oscinterface.OscInterface._build_msg; _osclib.OscMessage/OscPacket; '
                 'netaddr.NetAddr._calc_msg_dgram_size',
        bound=bound + ' + %d hand-picked refusal/edge messages' % len(extra),
        evaluations=n, distinct_nontrivial=len(tot['digests']),
        rule='every list is built by the real _build_msg; distinct_nontrivial = number of distinct '
             'datagrams produced by accepted lists (a set of digests); each accepted list is '
             'decoded by vf.specs.osc10 and compared with coerce(input), re-encoded, parsed by '
             'OscMessage and OscPacket, and sized by _calc_msg_dgram_size; each list the oracle '
             'calls unrepresentable has to raise',
        samples=[enc(['/a', 1, 0.5, 'abc']), enc(['/abc', b'abcde', None, []]),
                 enc(['/a', '[', ['/m', 'abc', b'xyz'], ']']), enc(['/ñ', [0.0, ['/m', 1]]]),
                 enc(['/a', 'x\x00y'])],
        exhaustive=True,
        extra={'accepted': tot['accepted'], 'refused': tot['refused'],
               'refused_only_for_empty_blob': tot['empty_blob_refused']})
    if tot['empty_blob_refused']:
        rep.note('messages: %d lists are refused only because they contain an empty blob; the '
                 'statement does not say whether b"" must be accepted, so this is not judged'
                 % tot['empty_blob_refused'])
    return fails


# --------------------------------------------------------------------- types --

def run_types(rep):
    oli = sc()['oli']
    rng = rep.rng
    fails = []
    n = 0
    distinct = set()

    def one(name, wfn, gfn, ofn, v, refuse, cmpval=None):
        nonlocal n
        n += 1
        distinct.add((name, repr(v)))
        case = [name, v]
        try:
            exp = ofn(v)
        except O.EncodeError:
            exp = None
        try:
            got = bytes(wfn(v))
        except Exception as e:
            got = e
        if exp is None or refuse:
            if not isinstance(got, Exception):
                cls = 'nul-in-string' if name == 'string' else name + '-range'
                fails.append(fail('C06.refusal', 'C06.refuse:' + cls,
                                  'write_%s(%r) accepts an unrepresentable value' % (name, v),
                                  case, got.hex(), 'an exception', 'type'))
            return
        if isinstance(got, Exception):
            if name == 'blob' and len(v) == 0:
                return
            fails.append(fail('C06.accept', 'C06.accept:unexpected-refusal',
                              'write_%s(%s) refuses a representable value: %s'
                              % (name, _short(v), type(got).__name__), case,
                              type(got).__name__, exp.hex()[:200], 'type'))
            return
        if got != exp:
            fails.append(fail('C06.conformance', 'C06.types:write_' + name,
                              'write_%s(%s) is not the OSC 1.0 encoding' % (name, _short(v)),
                              case, got.hex()[:200], exp.hex()[:200], 'type'))
            return
        for prefix in (b'', b'\x00\x00\x00\x07'):
            try:
                val, idx = gfn(prefix + got + b'/x\x00\x00', len(prefix))
            except Exception as e:
                fails.append(fail('C06.roundtrip', 'C06.types:get_' + name,
                                  'get_%s raises %s on write_%s(%s)'
                                  % (name, type(e).__name__, name, _short(v)), case,
                                  type(e).__name__, _short(v), 'type'))
                return
            want = cmpval if cmpval is not None else v
            if isinstance(want, (bytearray, memoryview)):
                want = bytes(want)
            if not O.same(val, want) or idx != len(prefix) + len(got):
                fails.append(fail('C06.roundtrip', 'C06.types:get_' + name,
                                  'get_%s(write_%s(x)) != x for x=%s' % (name, name, _short(v)),
                                  case, _short((val, idx)), _short((want, len(prefix) + len(got))),
                                  'type'))
                return

    ints = [-2 ** 31, -2 ** 31 + 1, -65536, -256, -1, 0, 1, 127, 128, 255, 256, 65535, 65536,
            2 ** 31 - 2, 2 ** 31 - 1] + [rng.randint(-2 ** 31, 2 ** 31 - 1) for _ in range(200)]
    for v in ints:
        one('int', oli.write_int, oli.get_int, O.enc_int32, v, False)
    for v in [2 ** 31, -2 ** 31 - 1, 2 ** 32, 2 ** 40, -2 ** 63, 2 ** 64]:
        one('int', oli.write_int, oli.get_int, O.enc_int32, v, True)
    floats = [0.0, -0.0, 0.5, -0.5, 1.0, 0.1, 1 / 3, 1e-45, 1e-46, -1e10, 16777217.0,
              3.4028234663852886e38, -3.4028234663852886e38, 3.40282356e38,
              float('inf'), float('-inf'), float('nan')]
    floats += [rng.uniform(-1, 1) * 10 ** rng.randint(-40, 38) for _ in range(200)]
    for v in floats:
        one('float', oli.write_float, oli.get_float, O.enc_float32, v, False,
            cmpval=O.to_float32(v))
    for v in [1e39, -1e39, 3.5e38, 3.4028235677973366e38, 1.7976931348623157e308]:
        one('float', oli.write_float, oli.get_float, O.enc_float32, v, True)
    strs = ['a' * k for k in range(0, 10)] + ['ñ', 'ñandú', '日本語',
                                              '\U0001f3b5', '/s_new', ',ifsb', ' ', 'a b\tc\n',
                                              'x' * 255, 'x' * 256, 'é' * 5]
    for v in strs:
        one('string', oli.write_string, oli.get_string, O.enc_string, v, False)
    for v in ['x\x00y', '\x00', 'abc\x00', '\x00abc', '\ud800']:
        one('string', oli.write_string, oli.get_string, O.enc_string, v, True)
    blobs = [bytes(range(1, k + 1)) for k in range(0, 10)] + [bytes(k) for k in range(0, 10)]
    blobs += [b'\xff' * 255, b'\x01' * 256, bytes(65537), bytearray(b'abcde'),
              bytes(rng.getrandbits(8) for _ in range(37))]
    for v in blobs:
        one('blob', oli.write_blob, oli.get_blob, O.enc_blob, v, False)
    for v in [0, 1, 2, 2 ** 32 - 1, 2 ** 32, 2 ** 32 + 1, 2 ** 63, 2 ** 64 - 1] + \
             [rng.getrandbits(64) for _ in range(100)]:
        one('timetag', oli.write_timetag, oli.get_timetag, O.enc_timetag, v, False)
    for v in [-1, 2 ** 64, -2 ** 63]:
        one('timetag', oli.write_timetag, oli.get_timetag, O.enc_timetag, v, True)
    rep.bounded(
        name='types', function='sc3.base._osclib.write_/get_ int,float,string,blob,timetag',
        bound='int32 edges + 200 random; float32 edges (denormal, max, inf, nan, overflow) + 200 '
              'random; strings of utf-8 length 0..9,255,256 incl. non-ASCII and NUL; blobs of '
              'length 0..9,255,256,65537; time tags 0,1,2^32+-1,2^63,2^64-1 + 100 random',
        evaluations=n, distinct_nontrivial=len(distinct),
        rule='write_x(v) must equal the independent OSC 1.0 encoding or raise when v is '
             'unrepresentable; get_x at offsets 0 and 4 inside a longer datagram must give back '
             '(v, next index); distinct = distinct (type, value) pairs',
        samples=[['int', -2 ** 31], ['float', 1e-46], ['string', 'ñandú'],
                 ['blob', {'b': '0102030405'}], ['timetag', 2 ** 64 - 1]])
    return fails


# ------------------------------------------------------------------ builders --

def _tags_of(v):
    """(tags, flat values) the low-level builder has to produce for v when
    the type is inferred: int->i, float->f, str->s, bytes->b, list->array."""
    if isinstance(v, list):
        tags, flat = '[', []
        for x in v:
            t, f = _tags_of(x)
            tags += t
            flat += f
        return tags + ']', flat
    if isinstance(v, float):
        return 'f', [O.to_float32(v)]
    if isinstance(v, int):
        return 'i', [v]
    if isinstance(v, str):
        return 's', [v]
    return 'b', [bytes(v)]


def _gen_plain(rng, depth):
    r = rng.random()
    if depth > 0 and r < 0.2:
        return [_gen_plain(rng, depth - 1) for _ in range(rng.randint(0, 3))]
    return rng.choice([0, 1, -1, 2 ** 31 - 1, -2 ** 31, 7, 0.5, -1e10, 0.1, '', 'a', 'abc',
                       'abcd', 'ñandú', b'\x00', b'abc', b'abcd', b'abcde',
                       bytes(rng.randint(1, 9))])


def check_builder_msg(case):
    oli = sc()['oli']
    address, args, explicit = case
    tags, flat = '', []
    b = oli.OscMessageBuilder(address)
    for v in args:
        t, f = _tags_of(v)
        tags += t
        flat += f
        if explicit and not isinstance(v, list):
            b.add_arg(v, t)
        else:
            b.add_arg(v)
    exp = O.Message(address, tags, flat)
    try:
        m = b.build()
        dgram = bytes(m.dgram)
    except Exception as e:
        return [fail('C06.accept', 'C06.accept:unexpected-refusal',
                     'OscMessageBuilder refuses %s: %s' % (_short(case), type(e).__name__),
                     case, type(e).__name__, O.encode(exp).hex()[:300], 'builder_msg')]
    what = 'OscMessageBuilder(%s)' % _short(case)
    fails = check_conformance(dgram, exp, case, 'builder_msg', what)
    fails += check_roundtrip(dgram, exp, case, 'builder_msg', what)
    if m.size != len(dgram):
        fails.append(fail('C06.conformance', 'C06.builders:size',
                          '%s: .size %d != len(dgram) %d' % (what, m.size, len(dgram)),
                          case, m.size, len(dgram), 'builder_msg'))
    return fails


def _gen_tree(rng, depth):
    """('m', address, args) | ('b', timetag, [children])"""
    if depth == 0 or rng.random() < 0.5:
        return ['m', rng.choice(['/a', '/abc', '/abcd', '/n_set']),
                [_gen_plain(rng, 1) for _ in range(rng.randint(0, 3))]]
    tt = rng.choice([0, 1, 2 ** 32, 2 ** 63, 2 ** 64 - 1, rng.getrandbits(64)])
    return ['b', tt, [_gen_tree(rng, depth - 1) for _ in range(rng.randint(0, 3))]]


def _build_tree(tree):
    oli = sc()['oli']
    if tree[0] == 'm':
        b = oli.OscMessageBuilder(tree[1])
        tags, flat = '', []
        for v in tree[2]:
            t, f = _tags_of(v)
            tags += t
            flat += f
            b.add_arg(v)
        return b.build(), O.Message(tree[1], tags, flat)
    b = oli.OscBundleBuilder(tree[1])
    exps = []
    for c in tree[2]:
        obj, e = _build_tree(c)
        b.add_content(obj)
        exps.append(e)
    return b.build(), O.Bundle(tree[1], exps)


def check_builder_tree(tree):
    try:
        obj, exp = _build_tree(tree)
        dgram = bytes(obj.dgram)
    except Exception as e:
        return [fail('C06.accept', 'C06.accept:unexpected-refusal',
                     'builders refuse %s: %s: %s' % (_short(tree), type(e).__name__, e),
                     tree, type(e).__name__, None, 'builder_tree')]
    what = 'builders(%s)' % _short(tree)
    fails = check_conformance(dgram, exp, tree, 'builder_tree', what)
    fails += check_roundtrip(dgram, exp, tree, 'builder_tree', what)
    if obj.size != len(dgram):
        fails.append(fail('C06.conformance', 'C06.builders:size', what + ': .size wrong',
                          tree, obj.size, len(dgram), 'builder_tree'))
    return fails


def check_builder_refusal(case):
    oli = sc()['oli']
    kind, v = case
    try:
        if kind == 'timetag':
            b = oli.OscBundleBuilder(v)
            b.build()
        elif kind == 'content':
            b = oli.OscBundleBuilder(1)
            b.add_content(v)
            b.build()
        elif kind == 'address':
            oli.OscMessageBuilder(v).build()
        else:
            b = oli.OscMessageBuilder('/a')
            b.add_arg(v)
            b.build()
    except Exception:
        return []
    cls = {'timetag': 'timetag-range', 'content': 'bundle-content', 'address': 'address'}.get(
        kind) or refusal_class(['/a', v])
    if isinstance(v, str) and '\x00' in v:
        cls = 'nul-in-string'
    return [fail('C06.refusal', 'C06.refuse:' + cls,
                 'builder accepts unrepresentable %s %s' % (kind, _short(v)), case,
                 'no exception', 'an exception', 'builder_refusal')]


def run_builders(rep):
    rng = rep.rng
    fails = []
    n = 0
    distinct = set()
    nrand = 4000 if rep.tier == 'thorough' else 800
    atoms = [0, -2 ** 31, 2 ** 31 - 1, 0.5, '', 'abc', 'abcd', 'ñ', b'\x00', b'abcd', b'abcde',
             [], [1], [1, ['a', [0.5]]]]
    cases = [['/a', list(c), ex] for k in range(0, 3) for c in itertools.product(atoms, repeat=k)
             for ex in (False, True)]
    cases += [[rng.choice(['/a', '/abc', '/abcd', '/ñ']),
               [_gen_plain(rng, 3) for _ in range(rng.randint(0, 5))], rng.random() < 0.5]
              for _ in range(nrand)]
    for c in cases:
        n += 1
        distinct.add(repr(c))
        fails += check_builder_msg(c)
    trees = [_gen_tree(rng, 4) for _ in range(nrand)]
    trees.append(['b', 1, [['b', 2, [['b', 3, [['b', 4, [['m', '/deep', [1, [2, [3, [4]]]]]]]]]]]]])
    trees.append(['b', 2 ** 64 - 1, []])
    for t in trees:
        n += 1
        distinct.add(repr(t))
        fails += check_builder_tree(t)
    for c in [['timetag', -1], ['timetag', 2 ** 64], ['content', ['/a', 1]], ['content', b'/a\x00\x00'],
              ['address', ''], ['address', None], ['address', 1], ['address', b'/a'],
              ['address', '/a\x00b'],
              ['arg', 2 ** 31], ['arg', -2 ** 31 - 1], ['arg', 1e39], ['arg', 'x\x00y'],
              ['arg', {}], ['arg', _Unsupported()], ['arg', [2 ** 31]], ['arg', ['x\x00y']]]:
        n += 1
        distinct.add(repr(enc(c)))
        fails += check_builder_refusal(c)
    rep.bounded(
        name='builders', function='sc3.base._osclib.OscMessageBuilder/OscBundleBuilder '
                                  '(+ OscMessage/OscBundle/OscPacket parsers)',
        bound='all argument lists of length <= 2 over 14 values (inferred and explicit type '
              'tags, arrays nested to depth 3) + %d random messages + %d random bundle trees of '
              'depth <= 4 with time tags from {0,1,2^32,2^63,2^64-1,random} + 17 refusals'
              % (nrand, nrand),
        evaluations=n, distinct_nontrivial=len(distinct),
        rule='the built datagram must be the independent OSC 1.0 encoding of (address, inferred '
             'type tags, values), parse back with sc3 to the same values, and report its size; '
             'distinct = distinct case descriptions',
        samples=[enc(cases[5]), enc(cases[-1]), enc(trees[0]), enc(trees[-2])])
    return fails


# -------------------------------------------------------------------- nested --

SAFE_ATOMS = [0, 1, -1, 2 ** 31 - 1, -2 ** 31, 0.5, -1e10, 0.1, '', 'a', 'abc', 'abcd',
              'ñandú', b'\x00', b'abc', b'abcd', b'abcde', True, False, None, []]


def gen_msg(rng, depth, ascii_only=False, allow_none_sub=True):
    addr = rng.choice(['/a', '/abc', '/abcd', '/n_set', '/s_new'] + ([] if ascii_only else ['/ñ']))
    args = []
    for _ in range(rng.randint(0, 4)):
        r = rng.random()
        if depth > 0 and r < 0.25:
            args.append(gen_msg(rng, depth - 1, ascii_only, allow_none_sub))
        elif depth > 0 and r < 0.45:
            args.append(gen_bundle(rng, depth - 1, None, True, ascii_only, allow_none_sub))
        elif r < 0.55:
            args += ['[', *[rng.choice(SAFE_ATOMS) for _ in range(rng.randint(0, 2))], ']']
        else:
            args.append(rng.choice(SAFE_ATOMS))
    return [addr, *args]


def gen_latency(rng, parent, top, allow_none_sub=True):
    if top:
        return rng.choice([None, -1, 0, 0.0, 0.2, 1, 2.5])
    if parent is None:
        return rng.choice(([None, -1] if allow_none_sub else []) + [0, 0.25, 1])
    if parent < 0:
        return rng.choice([0, 0.25, 1])
    return parent + rng.choice([0, 0.25, 1])


def gen_bundle(rng, depth, parent=None, top=True, ascii_only=False, allow_none_sub=True):
    lat = gen_latency(rng, parent, top, allow_none_sub)
    els = []
    for _ in range(rng.randint(1, 3)):
        if depth > 0 and rng.random() < 0.4:
            els.append(gen_bundle(rng, depth - 1, lat, False, ascii_only, allow_none_sub))
        else:
            els.append(gen_msg(rng, max(depth - 1, 0), ascii_only, allow_none_sub))
    return [lat, *els]


def _work_nested(task):
    kind, seed, count = task
    rng = random.Random(seed)
    sc()
    stats = _new_stats()
    fails = []
    for _ in range(count):
        plain = rng.random() < 0.8       # mostly without the two shapes the sizer refuses
        if kind == 'm':
            fails += check_message(gen_msg(rng, 4, plain, not plain), stats)
        else:
            fails += check_bundle(gen_bundle(rng, 4, None, True, plain, not plain), stats)
        if len(fails) > 200:
            fails = _cap(fails)
    return count, stats, _cap(fails)


def run_nested(rep, pool):
    per = 1500 if rep.tier == 'thorough' else 150
    tasks = [(k, rep.rng.getrandbits(48), per) for k in 'mb' for _ in range(16)]
    n = 0
    tot = _new_stats()
    fails = []
    for k, st, fl in pool.imap_unordered(_work_nested, tasks, chunksize=1):
        n += k
        tot['accepted'] += st['accepted']
        tot['refused'] += st['refused']
        tot['digests'] |= st['digests']
        fails += fl
    fixed = [
        ['/a', ['/b', ['/c', ['/d', ['/e', 1, 'abc', b'abcde']]]]],
        ['/a', [0.0, ['/b', [0.5, ['/c', [1, ['/d', [2, ['/e', 0.5]]]]]]]]],
        ['/a', [None, [None, ['/m']]]],
    ]
    fixedb = [
        [0.0, [0.0, [0.5, [1, [1, ['/deep', 1, 'abc', b'abcde', ['/cm', [2, ['/x']]]]]]]]],
        [None, [None, [-1, [0, [0.5, ['/m', None, True, []]]]]]],
        [None, [None, ['/m']]],
        [1, ['/a'], ['/b', 1], [1, ['/c', 'abc']], [1.5, ['/d', b'ab']]],
    ]
    st = _new_stats()
    for m in fixed:
        n += 1
        fails += check_message(m, st)
    for b in fixedb:
        n += 1
        fails += check_bundle(b, st)
    tot['digests'] |= st['digests']
    rng = random.Random(1)
    rep.bounded(
        name='nested',
        function='OscInterface._build_msg/_build_bundle, OscMessage/OscBundle/OscPacket, '
                 'NetAddr._calc_msg_dgram_size/_calc_bndl_dgram_size',
        bound='%d generated messages and %d generated bundles nested to depth 4 (messages in blobs '
              'in messages, bundles in blobs, bundles in bundles; latencies from '
              '{None,-1,0,0.2,1,2.5}, sub-bundles never before their parent) + 7 fixed depth-4/5 '
              'chains' % (16 * per, 16 * per),
        evaluations=n, distinct_nontrivial=len(tot['digests']),
        rule='same clauses as "messages", plus OscBundle time tags / element structure, '
             'OscPacket flattening, and _calc_bndl_dgram_size >= real size; distinct = distinct '
             'datagrams produced',
        samples=[enc(gen_msg(rng, 4)), enc(gen_bundle(rng, 4)), enc(fixed[1]), enc(fixedb[0])],
        extra={'accepted': tot['accepted'] + st['accepted'],
               'refused': tot['refused'] + st['refused']})
    return fails


# ------------------------------------------------------------------- restamp --

RESTAMP_TIMES = (0.0, 1.0, 2.5, 1.0)


def _in_routine(fn):
    """Run fn() with a routine as the current time thread (in non-real-time mode the send
    instant counts only there) and return its result."""
    s = sc()
    box = []

    def gen():
        box.append(fn())
        yield 0
    s['stm'].Routine(gen).next()
    return box[0]


def check_restamp(case):
    """The same content encoded at several send instants: every time the bytes decode to the
    content with the time tags of *that* instant (nothing of an earlier encoding is kept)."""
    s = sc()
    is_bundle = not isinstance(case[0], str)
    fails = []
    for t in RESTAMP_TIMES:
        tt = (lambda lat, t=t: O.nrt_timetag(lat, t))
        try:
            exp = (O.coerce_bundle if is_bundle else O.coerce_message)(case, tt)
        except O.OscError:
            return fails
        build = s['iface']._build_bundle if is_bundle else s['iface']._build_msg
        try:
            dgram = _in_routine(lambda: bytes(build(t, clone(case)).dgram))
        except Exception as e:
            if has_empty_blob(case):
                return fails
            fails.append(fail('C06.accept', 'C06.accept:unexpected-refusal',
                              'representable %s is refused when sent at %s from a routine: %s: %s'
                              % (_short(case), t, type(e).__name__, e), case,
                              type(e).__name__, O.encode(exp).hex()[:400], 'restamp'))
            return fails
        fl = check_conformance(dgram, exp, case, 'restamp',
                               'sent at logical time %s from a routine (after the same content '
                               'was sent at %s): %s' % (t, list(RESTAMP_TIMES[:RESTAMP_TIMES.index(t)]),
                                                        _short(case)))
        for f in fl:
            f['key'] = f['key'].replace('C06.conformance:', 'C06.conformance:restamp-')
        fails += fl
        if fl:
            break
    return fails


def _work_restamp(task):
    seed, count = task
    rng = random.Random(seed)
    sc()
    fails = []
    digests = set()
    for i in range(count):
        case = gen_msg(rng, 4, True, False) if i % 2 else gen_bundle(rng, 4, None, True, True, False)
        digests.add(hashlib.blake2b(repr(enc(case)).encode(), digest_size=8).digest())
        fails += check_restamp(case)
        if len(fails) > 200:
            fails = _cap(fails)
    return count, digests, _cap(fails)


def run_restamp(rep, pool):
    per = 600 if rep.tier == 'thorough' else 60
    tasks = [(rep.rng.getrandbits(48), per) for _ in range(16)]
    n = 0
    digests = set()
    fails = []
    for k, dg, fl in pool.imap_unordered(_work_restamp, tasks, chunksize=1):
        n += k
        digests |= dg
        fails += fl
    fixed = [
        ['/b_alloc', 7, 1024, 1, ['/b_query', 7, [0.25, ['/s_new', 'x', 1000, 0, 1]]]],
        ['/a', ['/b', ['/c', [0.5, ['/d', [1, ['/e']]]]]]],
        ['/a', [0.25, ['/b']], ['/c', [0.25, ['/b']]]],
        [0.5, ['/a', ['/b', [0.75, ['/c']]]], [1, ['/d', ['/e', [1, ['/f']]]]]],
    ]
    for c in fixed:
        n += 1
        fails += check_restamp(c)
    rep.bounded(
        name='restamp',
        function='OscInterface._build_msg/_build_bundle, NrtOscInterface._get_timetag',
        bound='%d generated nested messages/bundles (depth 4) + %d fixed completion-message chains, '
              'each encoded at the logical send times %s in this order from inside a routine '
              '(non-real-time mode)' % (16 * per, len(fixed), list(RESTAMP_TIMES)),
        evaluations=n * len(RESTAMP_TIMES), distinct_nontrivial=len(digests),
        rule='every encoding decodes (independent OSC 1.0 reader) to the content with all nested '
             'time tags = int((send time + latency) * 2**32) of that send, whatever was encoded '
             'before; distinct = distinct contents',
        samples=[enc(fixed[0]), enc(fixed[3])])
    return fails


# ------------------------------------------------------------------ straddle --

class _FakeDef:
    _SUFFIX = 'scsyndef'

    def __init__(self, blob):
        self._name = 'c06_fake'
        self._blob = blob
        self.written = 0

    def as_bytes(self):
        return self._blob

    def _write_def_file(self, *a, **k):
        self.written += 1


def check_dosend(case):
    """SynthDef._do_send: when the definition goes out as /d_recv, the real
    datagram is within the library's limit (the decision is taken on the
    predicted size, which may not be below the real one)."""
    s = sc()
    n, cm, as_mv = case
    blob = bytes(n)
    sent = []

    class Addr(s['NetAddr']):
        def send_msg(self, *args):
            sent.append(list(args))

    class Server:
        addr = Addr('127.0.0.1', 57110)

    fake = _FakeDef(memoryview(blob) if as_mv else blob)
    msg = ['/d_recv', fake.as_bytes(), cm]
    try:
        real = len(real_msg(['/d_recv', blob, cm]))
    except Exception:
        return []          # not an accepted message: nothing to decide
    fails = []
    try:
        s['SynthDef']._do_send(fake, Server, clone(cm))
    except Exception as e:
        key = sizer_key(e, ['/d_recv', blob, cm])
        return [fail('C06.sizing', key,
                     'SynthDef._do_send raises %s: %s for a sendable definition of %d bytes with '
                     'completion message %s' % (type(e).__name__, e, n, _short(cm)),
                     case, type(e).__name__, 'a decision', 'dosend')]
    if len(sent) != 1:
        return [fail('C06.sizing', 'C06.dosend:no-message',
                     '_do_send sent %d messages for a local server' % len(sent), case,
                     len(sent), 1, 'dosend')]
    if sent[0][0] == '/d_recv':
        pred = None
        try:
            pred = predicted_msg(msg)
        except Exception:
            pass
        if real > LIMIT:
            fails.append(fail(
                'C06.sizing', 'C06.sizing:msg-underestimate' if pred is not None and pred < real
                else 'C06.dosend:oversize',
                '_do_send chose /d_recv for a %d-byte definition: predicted %s <= %d but the real '
                'datagram has %d bytes' % (n, pred, LIMIT, real),
                case, {'predicted': pred, 'real': real}, 'real <= %d' % LIMIT, 'dosend'))
    elif sent[0][0] != '/d_load':
        fails.append(fail('C06.sizing', 'C06.dosend:no-message', '_do_send sent %s' % _short(sent[0]),
                          case, _short(sent[0]), '/d_recv or /d_load', 'dosend'))
    return fails


def run_straddle(rep):
    fails = []
    n = 0
    distinct = set()
    cms = [None, ['/s_new', 'x', 1000, 0, 1], ['/n_set', 1000, 'freq', 440.0, b'ab'],
           [0.0, ['/s_new', 'x', 1000]], 'abc', 'ñññ', []]
    span = range(-14, 15) if rep.tier == 'thorough' else range(-10, 11)
    for cm in cms:
        # blob length at which the real datagram is exactly LIMIT
        base = len(real_msg(['/d_recv', bytes(4), cm])) - 4
        for d in span:
            nbytes = LIMIT - base + d
            for mv in (False, True):
                case = [nbytes, cm, mv]
                n += 1
                distinct.add(repr(case))
                fails += check_dosend(case)
            if not isinstance(cm, list) or cm:
                msg = ['/d_recv', bytes(nbytes), cm]
                n += 1
                fails += check_message(msg)
    # strings around the limit (ASCII and 2-byte utf-8), many-argument messages
    for ch in ('a', 'é'):
        w = len(ch.encode())
        for d in span:
            k = (LIMIT - 12 + d) // w
            msg = ['/x', {'rep': [ch, k]}]
            n += 1
            distinct.add(repr(msg))
            fs = check_message(dec(msg))
            for f in fs:
                f['input'] = msg
                f['replay'] = {'func': 'msg', 'args': json.dumps(msg)}
                f['size'] = len(repr(msg))
            fails += fs
    # bundles whose real size straddles the limit
    for tail in span:
        # 99 elements of 656 bytes + one element adjusted
        k = LIMIT - 16 - 99 * 656 - 4 - 8 + tail * 1
        k = max(k, 1)
        spec = [0.0, {'groups': [[99, ['/x', {'rep': ['a', 640]}]], [1, ['/y', {'rep': ['b', k]}]]]}]
        n += 1
        distinct.add(repr(spec))
        b = [0.0] + expand_groups(spec[1]['groups'])
        fs = check_bundle(b)
        for f in fs:
            f['input'] = spec
            f['replay'] = {'func': 'bundle_groups', 'args': json.dumps(spec)}
            f['size'] = len(repr(spec))
        fails += fs
    rep.bounded(
        name='straddle',
        function='NetAddr._calc_msg_dgram_size/_calc_bndl_dgram_size, SynthDef._do_send',
        bound='/d_recv messages whose real size is 65504 %+d..%+d for 7 completion messages '
              '(bytes and memoryview definitions); string messages (ASCII, 2-byte utf-8) and '
              '100-element bundles at the same offsets' % (span[0], span[-1]),
        evaluations=n, distinct_nontrivial=len(distinct),
        rule='predicted size >= real size, and _do_send sends /d_recv only when the real datagram '
             'is <= 65504; distinct = distinct case descriptions',
        samples=[[LIMIT - 24, None, False], [LIMIT - 40, ['/s_new', 'x', 1000, 0, 1], True],
                 ['/x', {'rep': ['a', LIMIT - 12]}]])
    return fails


# --------------------------------------------------------------------- clump --

def expand_groups(groups):
    out = []
    for count, el in groups:
        e = dec(el)
        for _ in range(count):
            out.append(clone(e))
    return out


def _real_elem_size(e):
    if isinstance(e[0], str):
        return len(real_msg(e))
    return len(real_bundle(e))


def _pred_elem(e):
    if isinstance(e[0], str):
        return predicted_msg(e)
    return predicted_bndl([e]) - 20       # as an element: without header and size prefix


def clump_cause(elements, default):
    """Attribute a clumping failure: to the sizer if it is wrong on one of the
    elements, otherwise to the clumping arithmetic."""
    seen = set()
    for e in elements:
        r = repr(e)
        if r in seen:
            continue
        seen.add(r)
        try:
            real = _real_elem_size(e)
        except Exception:
            continue
        try:
            p = _pred_elem(e)
        except Exception as ex:
            return sizer_key(ex, e if isinstance(e[0], str) else [e])
        if p < real:
            return 'C06.sizing:msg-underestimate'
    return default


def check_clump(case):
    """_clump_bundle(elements[, size]): concatenation is the input; every
    clump with more than one element really encodes within the limit."""
    addr = sc()['addr']
    groups, size = case['groups'], case['size']
    elements = expand_groups(groups)
    limit = 8192 if size is None else size
    try:
        if size is None:
            clumps = addr._clump_bundle(clone(elements))
        else:
            clumps = addr._clump_bundle(clone(elements), size)
    except Exception as e:
        key = clump_cause(elements, 'C06.clump:raises')
        return [fail('C06.clumping', key, '_clump_bundle raises %s: %s' % (type(e).__name__, e),
                     case, type(e).__name__, 'clumps', 'clump')]
    fails = []
    flat = [e for c in clumps for e in c]
    if flat != elements:
        fails.append(fail('C06.clumping', 'C06.clump:elements',
                          '_clump_bundle loses, repeats or reorders elements (%d in, %d out)'
                          % (len(elements), len(flat)), case, len(flat), len(elements), 'clump'))
    for i, c in enumerate(clumps):
        if len(c) < 2:
            continue
        real = len(real_bundle([None, *c]))
        if real > limit:
            key = clump_cause(c, 'C06.clump:size-prefix')
            fails.append(fail('C06.clumping', key,
                              '_clump_bundle(size=%d): clump %d of %d elements encodes to %d bytes'
                              % (limit, i, len(c), real), case, real, '<= %d' % limit, 'clump'))
            break
    return fails


class _Capture:
    """Route the NRT interface through OscInterface.send_bundle/_send (the
    real-time code path) and keep the datagrams."""

    def __init__(self):
        s = sc()
        self.iface = s['iface']
        self.base = s['osci'].OscInterface
        self.dgrams = []

    def __enter__(self):
        iface, base = self.iface, self.base
        self._saved = {k: iface.__dict__.get(k) for k in ('send_bundle', 'send_msg', '_send')}
        iface._send = lambda msg, target: self.dgrams.append(bytes(msg.dgram))
        iface.send_bundle = lambda target, time, *el: base.send_bundle(iface, target, time, *el)
        iface.send_msg = lambda target, *args: base.send_msg(iface, target, *args)
        return self

    def __exit__(self, *a):
        for k, v in self._saved.items():
            if v is None:
                self.iface.__dict__.pop(k, None)
            else:
                self.iface.__dict__[k] = v


def _check_datagrams(dgrams, elements, case, func, what, strip_sync):
    fails = []
    got = []
    for i, d in enumerate(dgrams):
        try:
            b = O.decode(d)
        except O.DecodeError as e:
            return [fail('C06.conformance', 'C06.conformance:not-osc10',
                         '%s: datagram %d is not OSC 1.0: %s' % (what, i, e), case,
                         d.hex()[:200], None, func)]
        els = list(b.elements) if isinstance(b, O.Bundle) else [b]
        if strip_sync:
            els = [e for e in els if not (isinstance(e, O.Message) and e.address == '/sync')]
        if len(d) > UDP_MAX and len(els) > 1:
            key = clump_cause([x for x in elements], 'C06.clump:size-prefix')
            fails.append(fail('C06.clumping', key,
                              '%s: datagram %d carries %d elements in %d bytes (> %d, cannot be '
                              'sent over UDP)' % (what, i, len(els), len(d), UDP_MAX),
                              case, len(d), '<= %d' % UDP_MAX, func))
        got += [O.encode(e) for e in els]
    want = []
    for e in elements:
        want.append(O.encode(O.coerce_message(e) if isinstance(e[0], str) else O.coerce_bundle(e)))
    if got != want:
        fails.append(fail('C06.clumping', 'C06.clump:elements',
                          '%s: the datagrams do not carry every element exactly once and in order '
                          '(%d sent, %d received)' % (what, len(want), len(got)),
                          case, len(got), len(want), func))
    return fails


def check_send_clumped(case):
    addr = sc()['addr']
    elements = expand_groups(case['groups'])
    with _Capture() as cap:
        try:
            addr.send_clumped_bundles(case.get('time'), *clone(elements))
        except Exception as e:
            key = clump_cause(elements, 'C06.clump:raises')
            return [fail('C06.clumping', key,
                         'send_clumped_bundles raises %s: %s' % (type(e).__name__, e),
                         case, type(e).__name__, 'datagrams', 'send_clumped')]
    return _check_datagrams(cap.dgrams, elements, case, 'send_clumped',
                            'send_clumped_bundles', False)


def check_sync(case):
    s = sc()
    addr, stm = s['addr'], s['stm']
    elements = expand_groups(case['groups'])
    err = []

    def body():
        cond = stm.Condition(True)
        yield from addr.sync(cond, case.get('time'), clone(elements))

    with _Capture() as cap:
        r = stm.Routine(body)
        try:
            for _ in range(100000):
                r.next()
        except stm.StopStream:
            pass
        except Exception as e:
            err.append(e)
    if err:
        e = err[0]
        key = clump_cause(elements, 'C06.clump:raises')
        return [fail('C06.clumping', key, 'sync() raises %s: %s' % (type(e).__name__, e),
                     case, type(e).__name__, 'datagrams', 'sync')]
    return _check_datagrams(cap.dgrams, elements, case, 'sync', 'sync(elements=...)', True)


def _el_size(el):
    return _real_elem_size(dec(el))


def run_clump(rep):
    rng = rep.rng
    fails = []
    n = 0
    distinct = set()
    thorough = rep.tier == 'thorough'
    # exactly-sized elements (ints, ASCII strings, 4-aligned blobs) and awkward ones
    exact = [['/x', 'a'], ['/n_set', 1000, 'freq', 440], ['/x', {'rep': ['a', 40]}],
             ['/b', {'zb': 8}], ['/x', {'rep': ['a', 640]}], [0.0, ['/x', 1], ['/y', 'abc']]]
    awkward = [['/x', {'b': '01'}], ['/x', {'zb': 5}], ['/x', 'ééééé'],
               ['/x', ['/m', 'abc', {'b': '787980'}]], ['/x', []], ['/x', [0.0, ['/m', 1]]],
               [None, ['/m']]]
    cases = []
    sizes = [None, 64, 100, 256, 1000, 8192, LIMIT - 36, LIMIT]
    for el in exact + awkward:
        s = _el_size(el) + 4
        for size in sizes:
            lim = 8192 if size is None else size
            per = max((lim - 16) // s, 1)
            counts = {per - 1, per, per + 1, per + 2, 2 * per, 2 * per + 1, 3 * per + 1}
            if not thorough:
                counts = {per, per + 1, 2 * per + 1}
            for c in sorted(k for k in counts if k >= 1):
                cases.append({'groups': [[c, el]], 'size': size})
    # one oversized element among small ones, and alone
    for size in (None, 100, 1000):
        lim = 8192 if size is None else size
        big = ['/big', {'rep': ['a', lim]}]
        cases += [{'groups': [[1, big]], 'size': size},
                  {'groups': [[3, ['/x', 'a']], [1, big], [3, ['/x', 'a']]], 'size': size},
                  {'groups': [[1, big], [1, big]], 'size': size}]
    # mixed random element lists
    for _ in range(200 if thorough else 40):
        size = rng.choice([None, 100, 256, 1000, 4096])
        pool = exact + (awkward if rng.random() < 0.3 else [])
        groups = [[rng.randint(1, 6), rng.choice(pool)] for _ in range(rng.randint(2, 12))]
        if rng.random() < 0.5:
            groups.append([1, ['/s', {'rep': ['s', rng.randint(1, 3000)]}]])
            rng.shuffle(groups)
        cases.append({'groups': groups, 'size': size})
    cases.append({'groups': [], 'size': None})
    cases.sort(key=lambda c: len(repr(c)) + sum(g[0] for g in c['groups']))
    for c in cases:
        n += 1
        distinct.add(repr(c))
        fails += check_clump(c)
    n_clump = n

    # send_clumped_bundles: totals straddling 65504, many datagrams, awkward elements
    sc_cases = []
    big640 = ['/x', {'rep': ['a', 640]}]          # 652 bytes, 656 with its size prefix
    for d in (range(-16, 17, 4) if thorough else range(-8, 9, 4)):
        k = LIMIT - 16 - 99 * 656 - 4 - 8 + d     # last element: '/y' + ',s' + string
        sc_cases.append({'groups': [[99, big640], [1, ['/y', {'rep': ['b', k - 1]}]]], 'time': 0.2})
    sc_cases += [
        {'groups': [[100, big640]], 'time': None},
        {'groups': [[101, big640]], 'time': 0.0},
        {'groups': [[250, big640]], 'time': 0.2},
        {'groups': [[5000, ['/n_set', 1000, 'freq', 440]]], 'time': 0.2},
        {'groups': [[3, ['/x', 'a']], [1, ['/big', {'rep': ['a', 70000]}]], [3, ['/x', 'a']]],
         'time': None},
        {'groups': [[3852, ['/x', {'b': '61'}]]], 'time': 0.2},
        {'groups': [[3300, ['/x', 'ééééé']]], 'time': None},
        {'groups': [[2000, ['/x', ['/m', 'abc', {'b': '787980'}]]]], 'time': 0.2},
        {'groups': [[2000, [1.0, ['/x', 1], ['/y', 'abc']]]], 'time': 0.2},
        {'groups': [[1, ['/x', 'a']]], 'time': None},
    ]
    for c in sc_cases:
        n += 1
        distinct.add('sc' + repr(c))
        fails += check_send_clumped(c)

    # sync(): clump limit 65504 - 36, a '/sync' message appended to every clump
    sy_cases = []
    for d in (range(-16, 17, 4) if thorough else range(-8, 9, 4)):
        k = (LIMIT - 36) - 16 - 99 * 656 - 4 - 8 + d
        sy_cases.append({'groups': [[99, big640], [1, ['/y', {'rep': ['b', k - 1]}]]], 'time': 0.2})
    sy_cases += [
        {'groups': [[100, big640]], 'time': None},
        {'groups': [[100, big640]], 'time': 0.2},
        {'groups': [[101, big640]], 'time': 0.2},
        {'groups': [[250, big640]], 'time': None},
        {'groups': [[99, big640], [1, ['/x', {'rep': ['a', 600]}]]], 'time': None},
        {'groups': [[4500, ['/n_set', 1000, 'freq', 440]]], 'time': 0.2},
        {'groups': [[3852, ['/x', {'b': '61'}]]], 'time': None},
        {'groups': [[2, ['/x', 'a']]], 'time': None},
        {'groups': [[3, ['/x', 'a']], [1, ['/big', {'rep': ['a', 70000]}]], [3, ['/x', 'a']]],
         'time': None},
    ]
    for c in sy_cases:
        n += 1
        distinct.add('sy' + repr(c))
        fails += check_sync(c)
    rep.bounded(
        name='clump',
        function='NetAddr._clump_bundle, NetAddr.send_clumped_bundles, NetAddr.sync '
                 '(datagrams captured at OscInterface._send)',
        bound='%d element lists for _clump_bundle (13 element shapes x sizes {default,64,100,256,'
              '1000,8192,65468,65504} x counts around the split points, oversized elements, random '
              'mixes); %d send_clumped_bundles and %d sync() calls with totals straddling the limit '
              '(+-8..16 bytes), up to 5000 elements' % (n_clump, len(sc_cases), len(sy_cases)),
        evaluations=n, distinct_nontrivial=len(distinct),
        rule='concatenation of the clumps / of the datagram contents is the input list; a clump or '
             'datagram with more than one element really encodes within the limit (size given to '
             '_clump_bundle, 65507 for datagrams); a failure is attributed to the sizer when the '
             'sizer is wrong on one of the elements, otherwise to the clumping arithmetic',
        samples=[cases[0], cases[len(cases) // 2], sc_cases[0], sy_cases[-8]])
    return fails


# ---------------------------------------------------------------------- main --

FUNCS = {
    'msg': lambda a: check_message(dec(a)),
    'bundle': lambda a: check_bundle(dec(a)),
    'bundle_groups': lambda a: check_bundle([a[0]] + expand_groups(a[1]['groups'])),
    'type': None,
    'builder_msg': lambda a: check_builder_msg(dec(a)),
    'builder_tree': lambda a: check_builder_tree(dec(a)),
    'builder_refusal': lambda a: check_builder_refusal(dec(a)),
    'dosend': lambda a: check_dosend(dec(a)),
    'clump': check_clump,
    'send_clumped': check_send_clumped,
    'sync': check_sync,
    'restamp': lambda a: check_restamp(dec(a)),
}


def _replay_type(a):
    """Re-run one value of the 'types' sub-check."""
    oli = sc()['oli']
    name, v = dec(a)
    tab = {'int': (oli.write_int, oli.get_int, O.enc_int32),
           'float': (oli.write_float, oli.get_float, O.enc_float32),
           'string': (oli.write_string, oli.get_string, O.enc_string),
           'blob': (oli.write_blob, oli.get_blob, O.enc_blob),
           'timetag': (oli.write_timetag, oli.get_timetag, O.enc_timetag)}
    w, g, o = tab[name]
    try:
        exp = o(v)
    except O.EncodeError:
        exp = None
    try:
        got = bytes(w(v))
    except Exception:
        got = None
    if exp is None:
        return [] if got is None else [fail('C06.refusal', 'C06.refuse:' + name, 'accepted', [name, v])]
    if got is None:
        return [] if name == 'blob' and not v else [fail('C06.accept', 'C06.accept', 'refused', [name, v])]
    if got != exp:
        return [fail('C06.conformance', 'C06.types:write_' + name, 'differs', [name, v])]
    val, idx = g(got, 0)
    want = O.to_float32(v) if name == 'float' else (bytes(v) if name == 'blob' else v)
    if not O.same(val, want) or idx != len(got):
        return [fail('C06.roundtrip', 'C06.types:get_' + name, 'differs', [name, v])]
    return []


FUNCS['type'] = _replay_type


def report_all(rep, fails):
    """Smallest first, but within a key one case per entry point before a
    second one of the same entry point (only 3 per key are kept)."""
    seen = set()
    rank = {}
    ordered = []
    for f in sorted(fails, key=lambda f: (f['key'], f['size'], repr(f['input']))):
        ident = (f['key'], repr(f['input']), f['replay']['func'])
        if ident in seen:
            continue
        seen.add(ident)
        k = (f['key'], f['replay']['func'])
        rank[k] = rank.get(k, 0) + 1
        ordered.append((f['key'], rank[k], f['size'], len(ordered), f))
    for _, _, _, _, f in sorted(ordered, key=lambda t: t[:4]):
        rep.violation(obligation=f['obligation'], what=f['what'], input=f['input'], key=f['key'],
                      observed=f['observed'], expected=f['expected'], replay=f['replay'])


def main(rep):
    sc()
    fails = []
    pool = None
    if wants(rep, 'messages') or wants(rep, 'nested') or wants(rep, 'restamp'):
        pool = multiprocessing.get_context('fork').Pool(NPROC)
    try:
        if wants(rep, 'types'):
            fails += run_types(rep)
        if wants(rep, 'builders'):
            fails += run_builders(rep)
        if wants(rep, 'messages'):
            fails += run_messages(rep, pool)
        if wants(rep, 'nested'):
            fails += run_nested(rep, pool)
        if wants(rep, 'restamp'):
            fails += run_restamp(rep, pool)
        if wants(rep, 'straddle'):
            fails += run_straddle(rep)
        if wants(rep, 'clump'):
            fails += run_clump(rep)
    finally:
        if pool is not None:
            pool.terminate()
            pool.join()
    report_all(rep, fails)
    rep.note('left open: acceptance of empty blobs; addresses without a leading "/"; tuples/MIDI, '
             'doubles and T/F/N tags of the low-level builder; time tags given to the clumps; empty '
             'clumps returned by _clump_bundle; whether a sub-bundle with latency None or < 0 under a '
             'parent with latency < 0 is accepted')


def replay(case, rep):
    sc()
    r = case.get('replay') or {}
    fn = FUNCS.get(r.get('func'))
    if fn is None:
        return None
    args = r.get('args')
    if isinstance(args, str):          # deep cases are stored as JSON text
        args = json.loads(args)
    fails = fn(args)
    want = case.get('key')
    hit = [f for f in fails if want is None or f['key'] == want] or fails
    report_all(rep, hit)
    return not hit


if __name__ == '__main__':
    driver_main('C06', main, replay)
