"""Contracts for sc3/base/builtins.py (C15 numeric laws; C12/C16 use mod,
roundup and wrap through these contracts). Postconditions are the laws of the
C15 statement, not a transcription of the code."""
import z3
from vf.pyvc.spec import contract, Loop

F = 'sc3/base/builtins.py'
INL = ('floor', 'ceil', 'min', 'max', 'log2', 'log10', 'log', 'pow')


def isint(c, *names):
    return all(c.kinds[n] == 'int' for n in names)


# ---- transcendental axioms (trusted base) ---------------------------------
def trans_axioms():
    R = z3.RealSort()
    powf = z3.Function('uf_pow', R, R, R)
    log2 = z3.Function('uf_log2', R, R)
    log10 = z3.Function('uf_log10', R, R)
    x, y = z3.Reals('ax_x ax_y')
    return [
        z3.ForAll([y], log2(powf(2, y)) == y),
        z3.ForAll([x], z3.Implies(x > 0, powf(2, log2(x)) == x)),
        z3.ForAll([y], powf(2, y) > 0),
        z3.ForAll([y], log10(powf(10, y)) == y),
        z3.ForAll([x], z3.Implies(x > 0, powf(10, log10(x)) == x)),
        z3.ForAll([y], powf(10, y) > 0),
    ]


TRANS = ['axiom: log2(2^y)=y, x>0 => 2^(log2 x)=x, 2^y>0 (and base 10) for the '
         'uninterpreted math.pow/log2/log10']

# ---- mod -------------------------------------------------------------------
contract(F, 'mod', props=('C15',),
         params={'a': 'num', 'b': 'num'},
         requires=lambda c: c.b > 0,
         returns=lambda k: 'int' if k['a'] == 'int' and k['b'] == 'int' else 'real',
         ensures=[
             ('non-negative-below-modulus', lambda c: z3.And(c.result >= 0, c.result < c.b)),
             ('congruent', lambda c: c.exists_int(lambda k: c.a == c.result + k * c.b,
                                                    exact=z3.IsInt((c.a - c.result) / z3.ToReal(c.b) if z3.is_int(c.b) else (c.a - c.result) / c.b))),
         ],
         inline=INL)

# ---- div: floor division for a positive divisor ------------------------------
contract(F, 'div', props=('C15',),
         params={'a': 'int', 'b': 'int'},
         requires=lambda c: c.b > 0,
         returns='int',
         ensures=[('floor-quotient', lambda c: z3.And(c.result * c.b <= c.a,
                                                      c.a < (c.result + 1) * c.b))],
         inline=INL)


from vf.pyvc.spec import REGISTRY
_div = REGISTRY.pop('%s::div' % F)
contract(F, 'div', props=('C15',),
         params={'a': 'int', 'b': 'int'},
         requires=lambda c: c.b == 0,
         returns='int',
         ensures=[('dividend-when-the-divisor-is-zero', lambda c: c.result == c.a)],
         inline=INL)
REGISTRY['%s::div#by-zero' % F] = REGISTRY.pop('%s::div' % F)
REGISTRY['%s::div#by-zero' % F].key = '%s::div#by-zero' % F
REGISTRY['%s::div' % F] = _div


# ---- wrap / fold -------------------------------------------------------------
def wrap_range(c):
    if isint(c, 'x', 'lo', 'hi'):
        return z3.And(c.lo <= c.result, c.result <= c.hi)
    return z3.And(c.lo <= c.result, c.result < c.hi)


def wrap_cong(c):
    if isint(c, 'x', 'lo', 'hi'):
        m = c.hi - c.lo + 1
    else:
        m = c.hi - c.lo
    mr = z3.ToReal(m) if z3.is_int(m) else m
    return c.exists_int(lambda k: c.x == c.result + k * m, exact=z3.IsInt((c.x - c.result) / mr))


contract(F, 'wrap', props=('C15',),
         params={'x': 'num', 'lo': 'num', 'hi': 'num', 'range': 'none'},
         requires=lambda c: c.lo < c.hi,
         returns=lambda k: 'int' if all(k[n] == 'int' for n in ('x', 'lo', 'hi')) else 'real',
         ensures=[('lands-in-bounds', wrap_range), ('congruent', wrap_cong)],
         inline=INL + ('mod',))

contract(F, 'fold', props=('C15',),
         params={'x': 'num', 'lo': 'num', 'hi': 'num', 'range': 'none', 'range2': 'none'},
         requires=lambda c: c.lo < c.hi,
         ensures=[('lands-in-bounds', lambda c: z3.And(c.lo <= c.result, c.result <= c.hi)),
                  ('fixes-interior', lambda c: z3.Implies(z3.And(c.lo <= c.x, c.x < c.hi),
                                                          c.result == c.x))],
         inline=INL + ('mod',))

# ---- round / roundup / trunc -----------------------------------------------
def multiple(c):
    q = z3.ToReal(c.quant) if z3.is_int(c.quant) else c.quant
    return c.exists_int(lambda k: c.result == k * c.quant, exact=z3.IsInt(c.result / q))


def absr(x):
    return z3.If(x >= 0, x, -x)


for name, side in (
        ('round', lambda c: absr(c.result - c.x) * 2 <= c.quant),
        ('roundup', lambda c: z3.And(c.x <= c.result, c.result < c.x + c.quant)),
        ('trunc', lambda c: z3.And(c.x - c.quant < c.result, c.result <= c.x))):
    contract(F, name, props=('C15',),
             params={'x': 'num', 'quant': 'num'},
             requires=lambda c: c.quant > 0,
             returns='real',
             ensures=[('multiple-of-quantum', multiple), ('correct-side', side)],
             inline=INL + ('div',))

# ---- clip (idempotence: lemma file) ------------------------------------------
contract(F, 'clip', props=('C15',),
         params={'x': 'num', 'lo': 'num', 'hi': 'num'},
         requires=lambda c: c.lo <= c.hi,
         ensures=[('fixes-interior', lambda c: z3.Implies(z3.And(c.lo <= c.x, c.x <= c.hi),
                                                          c.result == c.x))],
         inline=INL)

L = '@lemmas/builtins_lemmas.py'
contract(L, 'clip_idempotent', props=('C15',),
         params={'x': 'num', 'lo': 'num', 'hi': 'num'},
         ensures=[('clip(clip(x))==clip(x)', lambda c: c.result)],
         inline=INL + ('clip',), note='two-call lemma over the real body of clip')

for name, dom in (('midicps_cpsmidi', lambda c: c.x > 0), ('cpsmidi_midicps', None),
                  ('midiratio_ratiomidi', lambda c: c.x > 0), ('ratiomidi_midiratio', None),
                  ('octcps_cpsoct', lambda c: c.x > 0), ('cpsoct_octcps', None),
                  ('dbamp_ampdb', lambda c: c.x > 0), ('ampdb_dbamp', None)):
    contract(L, name, props=('C15',),
             params={'x': 'real'}, requires=dom,
             ensures=[('inverse', lambda c: c.result == c.x)],
             inline=INL + ('midicps', 'cpsmidi', 'midiratio', 'ratiomidi', 'octcps',
                           'cpsoct', 'dbamp', 'ampdb'),
             axioms=[trans_axioms], trusted=TRANS,
             note='two-call lemma over the real bodies; transcendental axioms trusted')

# ---- the scbuiltin wrappers are transparent on plain numbers ----------------
for deco, params in (('unop', {'x': 'num'}), ('narop', {'x': 'num', 'args': 'tuple0'})):
    pass
