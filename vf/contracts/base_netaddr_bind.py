"""Contract for the bind() context manager in sc3/base/netaddr.py (C17):
the collected bundle is sent iff the block did not raise — whatever was raised
(exceptions outside the Exception hierarchy included) — and the server's
address is restored on every exit."""
import z3
from vf.pyvc.spec import contract
from vf.pyvc.values import *

F = 'sc3/base/netaddr.py'
FIELDS = {'BundleNetAddr': {'_server': ['none', 'ref:Server'], '_save_addr': 'obj', '_send': 'bool'},
          'Server': {'_addr': 'obj'}}


def exc_kind(eng, name):
    # an exception instance of an arbitrary class (BaseException subclasses included)
    return V('exc', cls='BaseException', extra={'line': None})


def sent(c):
    return any(e[0] == 'call' and e[1] == 'BundleNetAddr._send_last_bundle' for e in c.trace)


def exit_post(c):
    raised = c.kinds['exc_type'] != 'none'
    want = z3.And(z3.BoolVal(not raised), c.pre.self._send)
    return z3.BoolVal(sent(c)) == want


for srv in ('none', 'ref:Server'):
    contract(F, 'BundleNetAddr.__exit__', props=('C17',),
             params={'self': 'self', 'exc_type': ['none', 'class:BaseException', 'class:GeneratorExit',
                                                  'class:KeyboardInterrupt', 'class:ValueError'],
                     'exc_val': ['none', exc_kind], 'exc_tb': ['none', 'obj']},
             requires=None,
             ensures=[('sends-iff-the-block-did-not-raise', exit_post)]
             + ([('server-address-restored-on-every-exit', lambda c: z3.BoolVal(
                 (lambda a: a is not None and a.k == 'obj' and a.oid == 'self._save_addr')(
                     c.st.objs.get('self._server', {}).get('_addr'))))] if srv != 'none' else []),
             fields={'BundleNetAddr': {'_server': srv, '_save_addr': 'obj', '_send': 'bool'},
                     'Server': {'_addr': 'obj'}},
             policies={'BundleNetAddr._send_last_bundle': 'opaque'},
             class_modules={'BundleNetAddr': F}, native=False, max_cases=40)
    from vf.pyvc.spec import REGISTRY
    key = '%s::BundleNetAddr.__exit__#%s' % (F, 'server' if srv != 'none' else 'noserver')
    REGISTRY[key] = REGISTRY.pop('%s::BundleNetAddr.__exit__' % F)
    REGISTRY[key].key = key


# ---- while bound: everything is collected, nothing is sent ---------------------------------------------
# send_msg / send_bundle / send_clumped_bundles of a BundleNetAddr only append to the collected bundle
# (the messages of a bundle are taken over, its time is dropped); _send_last_bundle sends exactly what
# was collected after the last sync, with the server's latency, as ONE (clumped) bundle - or nothing
# when nothing was collected; __enter__ installs the collecting address.
from vf.pyvc import values as VV
COLLECTED = z3.Int('collected.len')


def bundle_kind(eng, name):
    return V('seq', extra={'len': COLLECTED, 'facts': [COLLECTED >= 0], 'collected': True,
                           'get': (lambda eng_, i, st_: V('any', z3.Select(z3.Array('collected.items', z3.IntSort(), VV.Any), i)))})


def b_getattr(eng, obj, name, st, node):
    if obj.k == 'seq' and obj.extra.get('collected') and name in ('append', 'extend'):
        def grow(eng, args, kwargs, st, node, _n=name):
            st.trace.append((_n, args[0]))
            return [(st, NONE)]
        return [(st, V('func', py=('spec', grow)))]
    if obj.k == 'obj' and obj.oid == 'self._save_addr' and name in ('send_clumped_bundles', 'send_bundle', 'send_msg'):
        def snd(eng, args, kwargs, st, node, _n=name):
            st.trace.append(('real-send', _n, tuple(args)))
            return [(st, NONE)]
        return [(st, V('func', py=('spec', snd)))]
    return None


def args_kind(eng, name):
    return vtuple([V('any', z3.Const('arg0', VV.Any)), V('any', z3.Const('arg1', VV.Any))])


def collect_post(method):
    def post(c):
        ev = [e for e in c.trace if e[0] in ('append', 'extend', 'real-send')]
        if len(ev) != 1 or ev[0][0] != method:
            return z3.BoolVal(False)
        v = ev[0][1]
        ok = v.k == 'list' and v.items is not None and len(v.items) == 2 and \
            all(x.k == 'any' and str(x.z) == 'arg%d' % j for j, x in enumerate(v.items))
        return z3.BoolVal(bool(ok))          # a list of exactly the given items, collected once, nothing sent
    return post


BF = {'BundleNetAddr': {'_bundle': bundle_kind, '_save_addr': 'obj', '_send': 'bool', '_last_sync': 'int',
                        '_server': 'ref:Server'},
      'Server': {'_addr': 'obj', 'latency': 'any'}}

contract(F, 'BundleNetAddr.send_msg', props=('C17',), params={'self': 'self', 'args': args_kind},
         ensures=[('collected-as-one-message-nothing-sent', collect_post('append'))], modifies=[],
         fields=BF, hooks={'getattr': b_getattr}, class_modules={'BundleNetAddr': F}, native=False)
for meth in ('send_bundle', 'send_clumped_bundles'):
    contract(F, 'BundleNetAddr.' + meth, props=('C17',),
             params={'self': 'self', 'time': 'any', 'elements': args_kind},
             ensures=[('its-elements-collected-time-dropped-nothing-sent', collect_post('extend'))], modifies=[],
             fields=BF, hooks={'getattr': b_getattr}, class_modules={'BundleNetAddr': F}, native=False)


def last_post(c):
    ev = [e for e in c.trace if e[0] in ('append', 'extend', 'real-send')]
    s = c.pre.self
    tail_len = z3.If(COLLECTED - (s._last_sync + 1) > 0, COLLECTED - (s._last_sync + 1), 0)
    if not ev:
        return tail_len == 0                                              # nothing collected since the last sync
    if len(ev) != 1 or ev[0][0] != 'real-send' or ev[0][1] != 'send_clumped_bundles':
        return z3.BoolVal(False)
    a = ev[0][2]
    if len(a) != 2 or a[1].k != 'star' or a[1].extra['seq'].k != 'seq':
        return z3.BoolVal(False)
    sent_seq = a[1].extra['seq']
    return z3.And(tail_len > 0, sent_seq.extra['len'] == tail_len,          # exactly the tail, as the elements
                  z3.BoolVal(a[0].k == 'any' and str(a[0].z) == 'self._server.latency'))


contract(F, 'BundleNetAddr._send_last_bundle', props=('C17',), params={'self': 'self'},
         requires=lambda c: c.pre.self._last_sync >= -1,
         ensures=[('what-was-collected-since-the-last-sync-goes-out-once-with-the-server-latency', last_post)],
         modifies=[], fields=BF, hooks={'getattr': b_getattr}, class_modules={'BundleNetAddr': F}, native=False,
         opts={'star_symbolic': True},
         note='the case with a server (bind() always has one); the elements passed are the tail slice')


contract(F, 'BundleNetAddr.__enter__', props=('C17',), params={'self': 'self'},
         ensures=[('collecting-address-installed-and-returned', lambda c: z3.BoolVal(
             (lambda a: a is not None and a.k == 'ref' and a.oid == 'self')(c.st.objs.get('self._server', {}).get('_addr'))
             and c.resultv.k == 'ref' and c.resultv.oid == 'self'))],
         modifies=[('self._server', '_addr')],
         fields={'BundleNetAddr': {'_server': 'ref:Server', '_save_addr': 'obj', '_send': 'bool'}, 'Server': {'_addr': 'obj'}},
         class_modules={'BundleNetAddr': F}, native=False)
