"""Contracts for sc3/base/main.py — how logical time is written (C05, C07)."""
import z3
from vf.pyvc.spec import contract
from vf.pyvc.values import *

F = 'sc3/base/main.py'
FIELDS = {'RtMain': {'_in_awake_call': 'bool', 'main_tt': 'ref:MainTT', '_main_lock': 'obj'},
          'NrtMain': {'main_tt': 'ref:MainTT'},
          'MainTT': {'_m_seconds': 'real'}}


def tt(c, when, klass='RtMain'):
    ns = c.pre if when == 'pre' else c.post
    return ns.cls(klass).main_tt._m_seconds


contract(F, 'RtMain._update_logical_time', props=('C05', 'C07'),
         params={'cls': 'cls', 'seconds': 'num'},
         ensures=[('scheduled-time-becomes-logical-time-unless-inside-an-awake-call',
                   lambda c: tt(c, 'post') == z3.If(c.pre.cls('RtMain')._in_awake_call, tt(c, 'pre'), c.seconds))],
         fields=FIELDS, class_modules={'RtMain': F}, native=False,
         note='the clock loops call this with the scheduled time before awakening a task (C05/C08 '
              'loop contracts); whatever the previous value was — logical time may step back to a '
              'scheduled time that is older than a physical reading made in between')

contract(F, 'NrtMain._update_logical_time', props=('C05', 'C07'),
         params={'cls': 'cls', 'seconds': 'num'},
         ensures=[('scheduled-time-becomes-logical-time', lambda c: tt(c, 'post', 'NrtMain') == c.seconds)],
         fields=FIELDS, class_modules={'NrtMain': F}, native=False)
