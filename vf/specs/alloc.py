"""Reference model of a contiguous index allocator (buses, buffers): an
interval set.

Written from the property statement (C16), not from sc3's implementation:

* the allocator serves one *partition* ``[lo, hi)`` of the index space;
* its state is the set of *live* ranges ``[start, start + n)`` handed out and
  not yet freed; live ranges are pairwise disjoint and inside the partition;
* ``alloc(n)`` may return ANY ``start`` such that ``[start, start + n)`` is
  free and inside the partition -- the choice is the implementation's.  The
  model therefore does not *compute* an address, it *judges* the one the
  implementation returned (``judge_alloc``) and then records it (``commit``);
* ``alloc(n)`` may report "no space" (``None``) only if the model has no free
  run of length ``n`` (``has_free_run``).  Because free space is simply the
  complement of the live ranges, a freed range is automatically merged with
  its free neighbours: an implementation that fails to coalesce shows up as a
  ``None`` the model does not allow;
* ``free(addr)`` of the start of a live range frees that whole range;
  ``free`` of anything else (an address that was never returned, a stale one,
  the inside of a live range, a second free) changes nothing.

Stdlib only; no sc3 import.
"""


class IntervalAllocModel:
    def __init__(self, lo, hi, live=None):
        if hi < lo:
            raise ValueError('empty partition bounds reversed')
        self.lo = lo
        self.hi = hi
        self.live = dict(live or {})  # start -> length

    # -- observation ---------------------------------------------------------
    def copy(self):
        return IntervalAllocModel(self.lo, self.hi, self.live)

    def key(self):
        return (self.lo, self.hi, tuple(sorted(self.live.items())))

    def live_ranges(self):
        return sorted(self.live.items())

    def used(self):
        return sum(self.live.values())

    def free_runs(self):
        """Maximal free runs as (start, length), ascending."""
        runs = []
        cur = self.lo
        for s, n in self.live_ranges():
            if s > cur:
                runs.append((cur, s - cur))
            cur = max(cur, s + n)
        if self.hi > cur:
            runs.append((cur, self.hi - cur))
        return runs

    def max_free_run(self):
        return max((n for _, n in self.free_runs()), default=0)

    def has_free_run(self, n):
        return n <= self.max_free_run() if n > 0 else True

    def free_starts(self, n):
        """Every start the implementation is allowed to return for alloc(n)."""
        res = []
        for s, m in self.free_runs():
            res.extend(range(s, s + m - n + 1))
        return res

    def is_live_start(self, addr):
        return addr in self.live

    def owner_of(self, index):
        """The live range (start, n) that contains ``index`` or None."""
        for s, n in self.live.items():
            if s <= index < s + n:
                return (s, n)
        return None

    # -- judging what the implementation did ------------------------------------
    def judge_alloc(self, n, result):
        """Problems (list of (clause, text)) with ``result`` as the answer to
        alloc(n) in the current state.  Clauses: 'type', 'partition',
        'overlap', 'complete'.  Empty list = allowed."""
        probs = []
        if result is None:
            if self.has_free_run(n):
                probs.append((
                    'complete',
                    'alloc(%d) reported no space but the free runs are %r'
                    % (n, self.free_runs())))
            return probs
        if isinstance(result, bool) or not isinstance(result, int):
            probs.append(('type', 'alloc(%d) returned %r, not an int index'
                          % (n, result)))
            return probs
        if result < self.lo or result + n > self.hi:
            probs.append((
                'partition',
                'alloc(%d) returned [%d, %d) which leaves the partition '
                '[%d, %d)' % (n, result, result + n, self.lo, self.hi)))
        for s, m in self.live_ranges():
            if result < s + m and s < result + n:
                probs.append((
                    'overlap',
                    'alloc(%d) returned [%d, %d) which overlaps the live '
                    'range [%d, %d)' % (n, result, result + n, s, s + m)))
        return probs

    def commit(self, start, n):
        """Record a range the implementation handed out (even a bad one, so
        that later answers are judged against what the client really holds)."""
        self.live[start] = max(n, self.live.get(start, 0))

    def free(self, addr):
        """Returns the (start, n) released, or None when nothing changes."""
        if addr in self.live:
            return (addr, self.live.pop(addr))
        return None

    def __repr__(self):
        return 'IntervalAllocModel([%d,%d) live=%r)' % (
            self.lo, self.hi, self.live_ranges())


def disjoint(ranges):
    """ranges: iterable of (start, n). Returns the first overlapping pair or
    None."""
    rs = sorted(ranges)
    for (a, n), (b, m) in zip(rs, rs[1:]):
        if b < a + n:
            return ((a, n), (b, m))
    return None
