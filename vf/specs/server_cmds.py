"""The SuperCollider *Server Command Reference* as argument grammars, plus a
small OSC 1.0 packet decoder so that messages can be judged in the form in
which they reach the wire.

Written from the Server Command Reference (scsynth, SC 3.x) and the OSC 1.0
specification -- not from sc3's client code.  Stdlib only; no sc3 import.

Vocabulary
----------
A *token* is ``(tag, value)`` with an OSC type tag: ``i f s b`` (int32,
float32, string, blob), ``h d t`` (int64, double, timetag), ``T F N I``,
``S c r m`` and the array markers ``[`` and ``]`` (value None).

A *message* is ``[address, token, token, ...]``.  ``conforms`` also accepts the
"Python form" used by clients (``['/n_set', 1000, 'freq', '[', 1, 2, ']']``)
and applies sclang's documented coercions first (``normalize``): ``None`` and
the empty list become int 0, ``True/False`` become int 1/0, ``'['``/``']'``
strings are array markers, a non-empty list is an embedded message or bundle
that travels as a blob.

Per position types of the reference:

* ``int``     -- ids, indices, counts, flags, add actions: tag ``i`` only;
* ``num``     -- "float or int" values (the server reads both): ``i`` or ``f``
                 (``d`` tolerated);
* ``str``     -- names, paths: ``s``;
* ``ctl``     -- "int or string: a control index or name": ``i`` or ``s``;
* ``val``     -- a control value of /s_new and /n_set: ``num``, a bus mapping
                 string (``c<index>`` / ``a<index>``), or an OSC array
                 (balanced ``[`` ... ``]``, nesting tolerated -- the server
                 flattens inner arrays) of those;
* ``bytes``   -- ``b``;
* completion  -- optional last argument "bytes: an OSC message to execute upon
                 completion": ``b`` holding a well formed OSC message or
                 bundle (checked recursively), or int 0, because ``nil`` -> 0
                 is the client's documented coercion for "no completion
                 message".

``conforms(msg) -> list of problems`` (empty = conforms).
``ids(msg)`` lists the node / buffer / bus ids a message mentions, with their
role, so that a driver can check ownership.
"""
import re
import struct

# --------------------------------------------------------------------------
# OSC 1.0 decoding
# --------------------------------------------------------------------------

class OscDecodeError(Exception):
    pass


def _pad4(n):
    return (n + 3) & ~3


def _read_str(data, pos):
    end = data.find(b'\0', pos)
    if end < 0:
        raise OscDecodeError('unterminated string at %d' % pos)
    s = data[pos:end]
    nxt = pos + _pad4(end - pos + 1)
    if nxt > len(data):
        raise OscDecodeError('string padding runs past the packet end')
    if any(data[end:nxt]):
        raise OscDecodeError('non-zero string padding at %d' % end)
    try:
        return s.decode('utf-8'), nxt
    except UnicodeDecodeError:
        return s.decode('latin-1'), nxt


def decode_message(data):
    """bytes -> [address, (tag, value), ...]"""
    data = bytes(data)
    if len(data) % 4:
        raise OscDecodeError('message size %d is not a multiple of 4'
                             % len(data))
    addr, pos = _read_str(data, 0)
    if not addr.startswith('/'):
        raise OscDecodeError('address %r does not start with /' % addr)
    if pos >= len(data):
        return [addr]  # OSC 1.0 tolerates a missing type tag string.
    tags, pos = _read_str(data, pos)
    if not tags.startswith(','):
        raise OscDecodeError('type tag string %r does not start with ,' % tags)
    toks = []
    for t in tags[1:]:
        if t == 'i':
            v = struct.unpack_from('>i', data, pos)[0]; pos += 4
        elif t == 'f':
            v = struct.unpack_from('>f', data, pos)[0]; pos += 4
        elif t in 'sS':
            v, pos = _read_str(data, pos)
        elif t == 'b':
            n = struct.unpack_from('>i', data, pos)[0]; pos += 4
            if n < 0 or pos + n > len(data):
                raise OscDecodeError('blob size %d out of range' % n)
            v = data[pos:pos + n]; pos += _pad4(n)
        elif t == 'h':
            v = struct.unpack_from('>q', data, pos)[0]; pos += 8
        elif t == 'd':
            v = struct.unpack_from('>d', data, pos)[0]; pos += 8
        elif t == 't':
            v = struct.unpack_from('>Q', data, pos)[0]; pos += 8
        elif t in 'crm':
            v = data[pos:pos + 4]; pos += 4
        elif t in 'TFNI[]':
            v = None
        else:
            raise OscDecodeError('unknown type tag %r' % t)
        if pos > len(data):
            raise OscDecodeError('argument %r runs past the packet end' % t)
        toks.append((t, v))
    if pos != len(data):
        raise OscDecodeError('%d trailing bytes after the last argument'
                             % (len(data) - pos))
    return [addr] + toks


def decode_packet(data):
    """bytes -> ('msg', message) | ('bundle', timetag, [packets])"""
    data = bytes(data)
    if data[:8] == b'#bundle\0':
        if len(data) < 16:
            raise OscDecodeError('bundle shorter than 16 bytes')
        tt = struct.unpack_from('>Q', data, 8)[0]
        pos = 16
        elems = []
        while pos < len(data):
            if pos + 4 > len(data):
                raise OscDecodeError('truncated bundle element size')
            n = struct.unpack_from('>i', data, pos)[0]; pos += 4
            if n < 0 or n % 4 or pos + n > len(data):
                raise OscDecodeError('bundle element size %d out of range' % n)
            elems.append(decode_packet(data[pos:pos + n])); pos += n
        return ('bundle', tt, elems)
    return ('msg', decode_message(data))


def flatten_packet(pkt):
    """All messages of a decoded packet, depth first, in order."""
    if pkt[0] == 'msg':
        return [pkt[1]]
    res = []
    for e in pkt[2]:
        res.extend(flatten_packet(e))
    return res


# --------------------------------------------------------------------------
# Python form -> tokens (sclang's documented coercions)
# --------------------------------------------------------------------------

def _is_token(x):
    return (isinstance(x, tuple) and len(x) == 2 and isinstance(x[0], str)
            and len(x[0]) == 1)


def normalize(msg):
    """Python form or token form -> token form ``[addr, (tag, value), ...]``."""
    if not isinstance(msg, (list, tuple)) or not msg \
            or not isinstance(msg[0], str):
        raise ValueError('not a message: %r' % (msg,))
    out = [msg[0]]
    for a in msg[1:]:
        if _is_token(a):
            out.append(a)
        elif a is None:
            out.append(('i', 0))
        elif isinstance(a, bool):
            out.append(('i', int(a)))
        elif isinstance(a, int):
            out.append(('i', a) if -2 ** 31 <= a < 2 ** 31 else ('h', a))
        elif isinstance(a, float):
            out.append(('f', a))
        elif isinstance(a, str):
            if a == '[' or a == ']':
                out.append((a, None))
            else:
                out.append(('s', a))
        elif isinstance(a, (bytes, bytearray, memoryview)):
            out.append(('b', bytes(a)))
        elif isinstance(a, (list, tuple)):
            if len(a) == 0:
                out.append(('i', 0))
            else:
                out.append(('b', list(a)))  # embedded message/bundle
        else:
            out.append(('?', a))
    return out


# --------------------------------------------------------------------------
# Grammar
# --------------------------------------------------------------------------

_MAPSTR = re.compile(r'^[ac]-?[0-9]+$')


class Leaf:
    def __init__(self, kind, name, role=None, lo=None, hi=None, choices=None):
        self.kind = kind      # int num str ctl val bytes any nvals
        self.name = name
        self.role = role      # node newnode buf cbus abus ... or None
        self.lo = lo
        self.hi = hi
        self.choices = choices


def I(name, role=None, lo=None, hi=None, choices=None):
    return Leaf('int', name, role, lo, hi, choices)


def NUM(name):
    return Leaf('num', name)


def S(name):
    return Leaf('str', name)


def CTL(name='control index or name'):
    return Leaf('ctl', name)


def VAL(name='control value'):
    return Leaf('val', name)


def B(name):
    return Leaf('bytes', name)


def NVALS(name='values'):
    """int M followed by M * num"""
    return Leaf('nvals', name)


ANY = Leaf('any', 'command specific argument')

ADD_ACTION = dict(lo=0, hi=4)


class Spec:
    def __init__(self, fixed=(), rep=None, rep_min=0, opt=(), comp=False,
                 rest_any=False):
        self.fixed = list(fixed)
        self.rep = list(rep) if rep else None
        self.rep_min = rep_min
        self.opt = list(opt)
        self.comp = comp
        self.rest_any = rest_any


def _node(name='node ID'):
    return I(name, 'node')


def _buf(name='buffer number'):
    return I(name, 'buf')


COMMANDS = {
    # -- master controls ------------------------------------------------------
    '/quit': Spec(),
    '/notify': Spec([I('flag', choices=(0, 1))], opt=[I('client ID')]),
    '/status': Spec(),
    '/cmd': Spec([S('command name')], rest_any=True),
    '/dumpOSC': Spec([I('code', lo=0, hi=3)]),
    '/sync': Spec([I('unique number')]),
    '/clearSched': Spec(),
    '/error': Spec([I('mode', choices=(-2, -1, 0, 1))]),
    '/version': Spec(),
    '/rtMemoryStatus': Spec(),
    '/nrt_end': Spec(),
    # -- synth definitions ------------------------------------------------------
    '/d_recv': Spec([B('synth definition file data')], comp=True),
    '/d_load': Spec([S('pathname')], comp=True),
    '/d_loadDir': Spec([S('pathname')], comp=True),
    '/d_free': Spec(rep=[S('synth def name')], rep_min=1),
    # -- nodes ------------------------------------------------------------------
    '/n_free': Spec(rep=[_node()], rep_min=1),
    '/n_run': Spec(rep=[_node(), I('run flag')], rep_min=1),
    '/n_set': Spec([_node()], rep=[CTL(), VAL()]),
    '/n_setn': Spec([_node()], rep=[CTL(), NVALS()]),
    '/n_fill': Spec([_node()], rep=[CTL(), I('number of values', lo=0),
                                    NUM('value')]),
    '/n_map': Spec([_node()], rep=[CTL(), I('control bus index', 'cbus_map')]),
    '/n_mapn': Spec([_node()], rep=[CTL(),
                                    I('control bus index', 'cbus_map_range'),
                                    I('number of controls', lo=0)]),
    '/n_mapa': Spec([_node()], rep=[CTL(), I('audio bus index', 'abus_map')]),
    '/n_mapan': Spec([_node()], rep=[CTL(),
                                     I('audio bus index', 'abus_map_range'),
                                     I('number of controls', lo=0)]),
    '/n_before': Spec(rep=[_node('node A'), _node('node B')], rep_min=1),
    '/n_after': Spec(rep=[_node('node A'), _node('node B')], rep_min=1),
    '/n_query': Spec(rep=[_node()], rep_min=1),
    '/n_trace': Spec(rep=[_node()], rep_min=1),
    '/n_order': Spec([I('add action', lo=0, hi=3), _node('add target ID')],
                     rep=[_node()]),
    # -- synths -----------------------------------------------------------------
    '/s_new': Spec([S('synth definition name'), I('synth ID', 'newnode'),
                    I('add action', **ADD_ACTION), _node('add target ID')],
                   rep=[CTL(), VAL()]),
    '/s_get': Spec([_node('synth ID')], rep=[CTL()]),
    '/s_getn': Spec([_node('synth ID')],
                    rep=[CTL(), I('number of controls', lo=0)]),
    '/s_noid': Spec(rep=[_node('synth ID')], rep_min=1),
    # -- groups -----------------------------------------------------------------
    '/g_new': Spec(rep=[I('new group ID', 'newnode'),
                        I('add action', **ADD_ACTION),
                        _node('add target ID')], rep_min=1),
    '/p_new': Spec(rep=[I('new group ID', 'newnode'),
                        I('add action', **ADD_ACTION),
                        _node('add target ID')], rep_min=1),
    '/g_head': Spec(rep=[_node('group ID'), _node()], rep_min=1),
    '/g_tail': Spec(rep=[_node('group ID'), _node()], rep_min=1),
    '/g_freeAll': Spec(rep=[_node('group ID')], rep_min=1),
    '/g_deepFree': Spec(rep=[_node('group ID')], rep_min=1),
    '/g_dumpTree': Spec(rep=[_node('group ID'), I('flag')], rep_min=1),
    '/g_queryTree': Spec(rep=[_node('group ID'), I('flag')], rep_min=1),
    # -- unit generators --------------------------------------------------------
    '/u_cmd': Spec([_node(), I('unit generator index'), S('command name')],
                   rest_any=True),
    # -- buffers ----------------------------------------------------------------
    '/b_alloc': Spec([_buf(), I('number of frames')],
                     opt=[I('number of channels')], comp=True),
    '/b_allocRead': Spec([_buf(), S('path')],
                         opt=[I('starting frame'), I('number of frames')],
                         comp=True),
    '/b_allocReadChannel': Spec(
        [_buf(), S('path'), I('starting frame'), I('number of frames')],
        rep=[I('source file channel index')], comp=True),
    '/b_read': Spec([_buf(), S('path')],
                    opt=[I('starting frame in file'), I('number of frames'),
                         I('starting frame in buffer'),
                         I('leave file open')], comp=True),
    '/b_readChannel': Spec(
        [_buf(), S('path'), I('starting frame in file'),
         I('number of frames'), I('starting frame in buffer'),
         I('leave file open')],
        rep=[I('source file channel index')], comp=True),
    '/b_write': Spec([_buf(), S('path'), S('header format'),
                      S('sample format')],
                     opt=[I('number of frames'), I('starting frame'),
                          I('leave file open')], comp=True),
    '/b_free': Spec([_buf()], comp=True),
    '/b_zero': Spec([_buf()], comp=True),
    '/b_close': Spec([_buf()], comp=True),
    '/b_set': Spec([_buf()], rep=[I('sample index'), NUM('sample value')]),
    '/b_setn': Spec([_buf()], rep=[I('starting sample index'), NVALS()]),
    '/b_fill': Spec([_buf()], rep=[I('starting sample index'),
                                   I('number of samples', lo=0),
                                   NUM('value')]),
    '/b_gen': Spec([_buf(), S('command')], rest_any=True),
    '/b_query': Spec(rep=[_buf()], rep_min=1),
    '/b_get': Spec([_buf()], rep=[I('sample index')]),
    '/b_getn': Spec([_buf()], rep=[I('starting sample index'),
                                   I('number of samples', lo=0)]),
    # -- control buses ----------------------------------------------------------
    '/c_set': Spec(rep=[I('bus index', 'cbus'), NUM('control value')],
                   rep_min=1),
    '/c_setn': Spec(rep=[I('starting bus index', 'cbus_nvals'), NVALS()],
                    rep_min=1),
    '/c_fill': Spec(rep=[I('starting bus index', 'cbus_range'),
                         I('number of buses', lo=0), NUM('value')],
                    rep_min=1),
    '/c_get': Spec(rep=[I('bus index', 'cbus')], rep_min=1),
    '/c_getn': Spec(rep=[I('starting bus index', 'cbus_range'),
                         I('number of buses', lo=0)], rep_min=1),
}

# /b_gen commands of the reference (plug-in commands may add others).
B_GEN = {
    'sine1': ('flags', 'num*'),
    'sine2': ('flags', 'num*2'),
    'sine3': ('flags', 'num*3'),
    'cheby': ('flags', 'num*'),
    'copy': ('copy',),
    'normalize': ('optnum',),
    'wnormalize': ('optnum',),
}


# --------------------------------------------------------------------------
# Matching
# --------------------------------------------------------------------------

class _Fail(Exception):
    pass


def _is_num(tok):
    return tok[0] in ('i', 'f', 'd') and not isinstance(tok[1], bool)


def _completion_problems(tok, depth):
    """tok is the completion candidate. Returns list of problems."""
    tag, val = tok
    if tag == 'i':
        if val == 0:
            return []
        return ['completion message is int %r (only 0 = none is accepted)'
                % (val,)]
    if tag != 'b':
        return ['completion message has type tag %r, expected a blob' % tag]
    if depth > 4:
        return ['completion messages nested deeper than 4']
    if isinstance(val, list):  # Python form embedded message or bundle.
        return _embedded_py_problems(val, depth + 1)
    try:
        pkt = decode_packet(val)
    except (OscDecodeError, struct.error) as e:
        return ['completion blob is not an OSC packet: %s' % e]
    probs = []
    for m in flatten_packet(pkt):
        probs.extend('in completion message: ' + p
                     for p in _conforms_tokens(m, depth + 1))
    return probs


def _embedded_py_problems(val, depth):
    if isinstance(val[0], str):
        try:
            toks = normalize(val)
        except ValueError as e:
            return [str(e)]
        return ['in completion message: ' + p
                for p in _conforms_tokens(toks, depth)]
    probs = []
    for e in val[1:]:  # [time, msg, msg...]
        if not isinstance(e, (list, tuple)) or not e:
            probs.append('bundle element %r is not a message' % (e,))
        else:
            probs.extend(_embedded_py_problems(list(e), depth))
    return probs


def _match_array(toks, pos):
    """toks[pos] is '['; returns position after the matching ']'."""
    depth = 0
    i = pos
    while i < len(toks):
        tag, val = toks[i]
        if tag == '[':
            depth += 1
        elif tag == ']':
            depth -= 1
            if depth == 0:
                return i + 1
        elif _is_num(toks[i]):
            pass
        elif tag == 's' and _MAPSTR.match(val):
            pass
        else:
            raise _Fail('array element %d has type tag %r (%r); a control '
                        'value array holds float/int values or bus mapping '
                        'strings' % (i, tag, val))
        i += 1
    raise _Fail('unbalanced array: "[" at argument %d is never closed' % pos)


def _match_leaf(leaf, toks, pos, found):
    """Match one leaf at toks[pos]; returns new pos. Raises _Fail."""
    if pos >= len(toks):
        raise _Fail('missing argument %d (%s)' % (pos, leaf.name))
    tag, val = toks[pos]
    k = leaf.kind
    if k == 'any':
        return pos + 1
    if k == 'int':
        if tag != 'i':
            raise _Fail('argument %d (%s) has type tag %r (%r), expected int'
                        % (pos, leaf.name, tag, val))
        if leaf.lo is not None and val < leaf.lo \
                or leaf.hi is not None and val > leaf.hi \
                or leaf.choices is not None and val not in leaf.choices:
            raise _Fail('argument %d (%s) = %r is outside the values of the '
                        'reference' % (pos, leaf.name, val))
        if leaf.role:
            found.append([leaf.role, val, pos])
        return pos + 1
    if k == 'num':
        if not _is_num(toks[pos]):
            raise _Fail('argument %d (%s) has type tag %r (%r), expected '
                        'float or int' % (pos, leaf.name, tag, val))
        return pos + 1
    if k == 'str':
        if tag != 's':
            raise _Fail('argument %d (%s) has type tag %r (%r), expected '
                        'string' % (pos, leaf.name, tag, val))
        return pos + 1
    if k == 'ctl':
        if tag not in ('i', 's'):
            raise _Fail('argument %d (%s) has type tag %r (%r), expected int '
                        'or string' % (pos, leaf.name, tag, val))
        return pos + 1
    if k == 'bytes':
        if tag != 'b':
            raise _Fail('argument %d (%s) has type tag %r, expected bytes'
                        % (pos, leaf.name, tag))
        return pos + 1
    if k == 'val':
        if _is_num(toks[pos]):
            return pos + 1
        if tag == 's':
            if _MAPSTR.match(val):
                return pos + 1
            raise _Fail('argument %d (%s) is the string %r; only bus mapping '
                        'strings c<index>/a<index> are control values'
                        % (pos, leaf.name, val))
        if tag == '[':
            return _match_array(toks, pos)
        raise _Fail('argument %d (%s) has type tag %r (%r), expected float, '
                    'int, bus mapping string or array'
                    % (pos, leaf.name, tag, val))
    if k == 'nvals':
        if tag != 'i':
            raise _Fail('argument %d (number of %s) has type tag %r (%r), '
                        'expected int' % (pos, leaf.name, tag, val))
        if val < 0:
            raise _Fail('argument %d (number of %s) is negative' % (pos,
                                                                    leaf.name))
        if found and found[-1][2] == pos - 1 and found[-1][0].endswith(
                '_nvals'):
            found[-1].append(val)
        for j in range(val):
            p = pos + 1 + j
            if p >= len(toks):
                raise _Fail('argument %d announces %d %s but only %d follow'
                            % (pos, val, leaf.name, j))
            if not _is_num(toks[p]):
                raise _Fail('argument %d (value %d of %d) has type tag %r '
                            '(%r), expected float or int'
                            % (p, j + 1, val, toks[p][0], toks[p][1]))
        return pos + 1 + val
    raise AssertionError(k)


def _match_group(group, toks, pos, found):
    start_found = len(found)
    try:
        for i, leaf in enumerate(group):
            pos = _match_leaf(leaf, toks, pos, found)
            # a *_range role takes the following count as its extent
            if i > 0 and group[i - 1].role and group[i - 1].role.endswith(
                    '_range') and leaf.kind == 'int':
                for f in found[start_found:]:
                    if f[0] == group[i - 1].role and len(f) == 3:
                        f.append(toks[pos - 1][1])
        return pos
    except _Fail:
        del found[start_found:]
        raise


def _conforms_tokens(msg, depth=0, found=None):
    addr, toks = msg[0], list(msg[1:])
    if found is None:
        found = []
    spec = COMMANDS.get(addr)
    if spec is None:
        return ['unknown command %r' % (addr,)]
    for i, t in enumerate(toks):
        if t[0] in 'TFNI?':
            return ['argument %d has type tag %r (%r): the server commands '
                    'take int, float, string and bytes arguments only'
                    % (i, t[0], t[1])]
    pos = 0
    try:
        for leaf in spec.fixed:
            pos = _match_leaf(leaf, toks, pos, found)
        if spec.rest_any:
            probs = _b_gen_problems(toks) if addr == '/b_gen' else []
            if addr == '/b_gen' and not probs and toks[1][1] == 'copy':
                found.append(['buf', toks[3][1], 3])
            return probs
        ngroups = 0
        if spec.rep is not None:
            while pos < len(toks):
                rest = len(toks) - pos
                if spec.comp and rest == 1 and toks[pos][0] == 'b':
                    break
                try:
                    pos = _match_group(spec.rep, toks, pos, found)
                    ngroups += 1
                except _Fail:
                    if spec.comp and rest == 1 \
                            and toks[pos] == ('i', 0):
                        break
                    raise
            if ngroups < spec.rep_min:
                raise _Fail('%d argument group(s), the reference requires at '
                            'least %d' % (ngroups, spec.rep_min))
        for leaf in spec.opt:
            if pos >= len(toks):
                break
            pos = _match_leaf(leaf, toks, pos, found)
        if pos < len(toks) and spec.comp:
            rest = len(toks) - pos
            if rest == 1:
                probs = _completion_problems(toks[pos], depth)
                if probs:
                    return probs
                pos += 1
        if pos < len(toks):
            raise _Fail('%d argument(s) more than the reference allows '
                        '(first extra: argument %d = %r)'
                        % (len(toks) - pos, pos, toks[pos]))
    except _Fail as e:
        return ['%s: %s' % (addr, e)]
    return []


def _b_gen_problems(toks):
    cmd = toks[1][1]
    args = toks[2:]
    form = B_GEN.get(cmd)
    if form is None:
        return []  # plug-in defined command: arguments unspecified
    try:
        if form[0] == 'flags':
            if not args or args[0][0] != 'i':
                raise _Fail('/b_gen %s: argument 2 (flags) must be an int'
                            % cmd)
            vals = args[1:]
            for j, t in enumerate(vals):
                if not _is_num(t):
                    raise _Fail('/b_gen %s: argument %d has type tag %r, '
                                'expected float or int' % (cmd, j + 3, t[0]))
            if form[1] == 'num*2' and len(vals) % 2:
                raise _Fail('/b_gen sine2: %d values, expected (freq, amp) '
                            'pairs' % len(vals))
            if form[1] == 'num*3' and len(vals) % 3:
                raise _Fail('/b_gen sine3: %d values, expected (freq, amp, '
                            'phase) triples' % len(vals))
        elif form[0] == 'copy':
            if len(args) != 4 or any(t[0] != 'i' for t in args):
                raise _Fail('/b_gen copy: expected 4 ints (dest start, source '
                            'buffer, source start, number of samples), got %r'
                            % (args,))
        elif form[0] == 'optnum':
            if len(args) > 1 or (args and not _is_num(args[0])):
                raise _Fail('/b_gen %s: expected at most one float, got %r'
                            % (cmd, args))
    except _Fail as e:
        return [str(e)]
    return []


def conforms(msg):
    """msg: ``[address, arg, ...]`` in token or Python form.  Returns the list
    of problems with respect to the Server Command Reference (empty list:
    the message conforms in name, argument count, order and types)."""
    try:
        toks = normalize(msg)
    except ValueError as e:
        return [str(e)]
    return _conforms_tokens(toks)


def conforms_packet(pkt):
    """pkt: result of decode_packet. Problems of every message inside."""
    probs = []
    for m in flatten_packet(pkt):
        probs.extend(_conforms_tokens(m))
    return probs


def ids(msg):
    """The ids a (conforming) message mentions:
    list of dicts {'kind': 'node'|'buf'|'cbus'|'abus', 'id': int, 'count': int,
    'role': str, 'pos': int}.  Roles: 'node' (existing node), 'newnode' (id of
    the node being created; -1 = let the server choose), 'buf', 'cbus'/'abus'
    (bus indices; for mapping roles -1 = unmap).  Completion messages are
    included.  Non conforming messages yield what could be parsed."""
    toks = normalize(msg)
    found = []
    _conforms_tokens(toks, 0, found)
    res = []
    for f in found:
        role, val, pos = f[0], f[1], f[2]
        count = f[3] if len(f) > 3 else 1
        if role in ('node', 'newnode'):
            kind = 'node'
        elif role == 'buf':
            kind = 'buf'
        elif role.startswith('cbus'):
            kind = 'cbus'
        elif role.startswith('abus'):
            kind = 'abus'
        else:
            continue
        res.append({'kind': kind, 'id': val, 'count': count,
                    'role': role, 'pos': pos})
    # completion message (last blob) of the commands that take one
    spec = COMMANDS.get(toks[0])
    if spec is not None and spec.comp and len(toks) > 1 \
            and toks[-1][0] == 'b':
        val = toks[-1][1]
        try:
            if isinstance(val, list):
                inner = [normalize(val)] if isinstance(val[0], str) else [
                    normalize(e) for e in val[1:]]
            else:
                inner = flatten_packet(decode_packet(val))
            for m in inner:
                res.extend(ids(m))
        except (OscDecodeError, struct.error, ValueError):
            pass
    return res


def completion_of(msg):
    """The messages inside the completion blob of ``msg`` (token form) or []."""
    toks = normalize(msg)
    spec = COMMANDS.get(toks[0])
    if spec is None or not spec.comp or len(toks) < 2 or toks[-1][0] != 'b':
        return []
    val = toks[-1][1]
    if isinstance(val, list):
        return [normalize(val)] if isinstance(val[0], str) else [
            normalize(e) for e in val[1:]]
    try:
        return flatten_packet(decode_packet(val))
    except (OscDecodeError, struct.error):
        return []


def values(msg):
    """Plain Python values of a token-form message (array markers as '[' and
    ']' strings), convenient for comparisons."""
    toks = normalize(msg)
    out = [toks[0]]
    for tag, val in toks[1:]:
        out.append(tag if tag in '[]' else val)
    return out
