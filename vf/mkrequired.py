"""Regenerate vf/required.json: the obligations that discharge on the current
tree (run on the unchanged, repaired /repo). An obligation in this list that
later comes back `sat` without a native replay is reported as a violation
(`no-failing-input-found`); one that is no longer generated is a checker error
unless its function left the provable subset (then the bounded driver decides)."""
import json
import os
import sys
from .common import VERIF
from . import props
from .pyvc import api


def one(pid):
    p = props.PROPS[pid]
    stable = None
    for seed in (0, 1):
        r = api.verify(pid, p['contracts'], 'quick', seed)
        names = set(x['name'] for x in r['results'] if x['result'] == 'unsat')
        stable = names if stable is None else (stable & names)
        print(pid, 'seed', seed, r['obligations'], r['discharged'], r['undecided'],
              len(r['violations']), r['errors'][:2], file=sys.stderr)
    # obligations on paths the contract declares optional (e.g. an error the property does not ask for: the clause
    # constrains the path while it exists, its disappearance is not a loss)
    from .pyvc.spec import REGISTRY
    for key, c in REGISTRY.items():
        for frag in (c.opts or {}).get('optional_obligations', ()):
            stable = {n for n in stable if not (n.startswith(key + '[') and ('::' + frag) in n)}
    print(json.dumps(sorted(stable)))


def main():
    if len(sys.argv) > 1:
        return one(sys.argv[1])
    import subprocess
    out = {}
    for pid, p in sorted(props.PROPS.items()):
        if not p.get('contracts'):
            continue
        # one fresh process per property: the contract registry is process-global
        r = subprocess.run([sys.executable, '-m', 'vf.mkrequired', pid], capture_output=True,
                           text=True, cwd=VERIF, env=dict(os.environ, PYTHONPATH=VERIF))
        sys.stderr.write(r.stderr)
        out[pid] = json.loads(r.stdout.strip().split('\n')[-1])
    with open(os.path.join(VERIF, 'vf', 'required.json'), 'w') as f:
        json.dump(out, f, indent=0)
    print({k: len(v) for k, v in out.items()})
    return
    for pid, p in []:
        for seed in ():
            r = None
            names = set(x['name'] for x in r['results'] if x['result'] == 'unsat')
            # table rows are summarised in results: take all discharged tables rows by name
            stable = names if stable is None else (stable & names)
            print(pid, 'seed', seed, r['obligations'], r['discharged'], r['undecided'],
                  len(r['violations']), r['errors'][:2])
        out[pid] = sorted(stable)
    with open(os.path.join(VERIF, 'vf', 'required.json'), 'w') as f:
        json.dump(out, f, indent=0)
    print({k: len(v) for k, v in out.items()})


if __name__ == '__main__':
    main()
