"""Contracts for sc3/synth/synthdef.py — the build context frame (C20) and a
static obligation on set iteration (determinism of the emitted order)."""
import ast
import os
import z3
from vf.pyvc.spec import contract, table
from vf.pyvc.values import *
from vf.pyvc.engine import Raised
from ._common import MAIN_FIELDS, TT_FIELDS

F = 'sc3/synth/synthdef.py'
FIELDS = {'SynthDef': {'_func': 'obj', '_callable_args': 'obj'},
          'Main': MAIN_FIELDS, 'TimeThread': TT_FIELDS}


def phase(name):
    """a build phase: returns normally or raises some Exception subclass"""
    def pol(eng, selfv, args, kwargs, st, node):
        ctx = st.objs.get('main', {}).get('_current_synthdef')     # the build context this phase runs in
        ok = st.fork()
        ok.trace.append(('phase', name, 'ok', ctx))
        bad = st.fork()
        bad.trace.append(('phase', name, 'raise', ctx))
        return [(ok, NONE), (bad, Raised(eng.make_exc('ValueError', node=node)))]
    return pol


def context_clear(c):
    v = c.post.main.v('_current_synthdef')
    return z3.BoolVal(isinstance(v, V) and v.k == 'none')


def lock_released(c):
    depth = 0
    for e in c.trace:
        if e[0] == 'enter':
            depth += 1
        elif e[0] == 'exit':
            depth -= 1
    return z3.BoolVal(depth == 0 and any(e[0] == 'enter' for e in c.trace))


def raised_iff_phase_failed(c):
    failed = any(e[0] == 'phase' and e[2] == 'raise' for e in c.trace)
    return z3.BoolVal((not failed) or (c.exc is not None))


def context_set_during_phases(c):
    # every phase ran with the build context pointing at THIS definition (units created by the graph function
    # register with the definition they find there)
    ph = [e for e in c.trace if e[0] == 'phase']
    return z3.BoolVal(all(len(e) > 3 and e[3] is not None and e[3].k == 'ref' and e[3].oid == 'self' for e in ph))


def func_kept(c):
    f = c.post.self.v('_func')
    return z3.BoolVal(f is c._params['func'] or (f.k == 'obj' and f.oid == 'func'))


contract(F, 'SynthDef._build', props=('C20',),
         params={'self': 'self', 'func': 'obj', 'rates': 'obj', 'prepend': 'obj'},
         raises={'ValueError': None, 'TypeError': None},
         on_any_exit=[('build-context-cleared', context_clear),
                      ('every-phase-ran-in-this-definitions-context', context_set_during_phases),
                      ('build-lock-released', lock_released),
                      ('a-failing-phase-is-not-swallowed', raised_iff_phase_failed)],
         ensures=[('all-phases-ran', lambda c: z3.BoolVal(
             [e[1] for e in c.trace if e[0] == 'phase'] ==
             ['SynthDef._init_build', 'SynthDef._build_ugen_graph', 'SynthDef._finish_build']))],
         policies={'SynthDef._init_build': phase('SynthDef._init_build'),
                   'SynthDef._build_ugen_graph': phase('SynthDef._build_ugen_graph'),
                   'SynthDef._finish_build': phase('SynthDef._finish_build'),
                   'as_list': 'opaque'},
         opaque_kinds={'as_list': 'obj'},
         fields=FIELDS, class_modules={'SynthDef': F}, native=False,
         hooks={}, opts={'opaque_algebra': True, 'opaque_ext': ('inspect.signature',)},
         note='BaseException (KeyboardInterrupt inside a build) is not claimed')


# ---- static obligation: no set iteration reaches the emitted order -------------
SET_ATTRS = ('_descendants', '_antecedents', '_constant_set')


def _set_iteration_rows(repo):
    """Every `for ... in X` / comprehension / list(X) / sorted-less iteration over a
    set-typed attribute in synthdef.py and ugen.py must be order-insensitive:
    allowed sinks are membership updates of other sets, calls of the optimiser
    on each element, and sorting by _synth_index. Anything that appends to a
    list or writes bytes from such an iteration fails the obligation by name."""
    rows = []
    for rel in ('sc3/synth/synthdef.py', 'sc3/synth/ugen.py'):
        tree = ast.parse(open(os.path.join(repo, rel)).read())
        for fn in [n for n in ast.walk(tree) if isinstance(n, ast.FunctionDef)]:
            for node in ast.walk(fn):
                it = None
                if isinstance(node, ast.For):
                    it = node.iter
                    body = node.body
                elif isinstance(node, (ast.ListComp, ast.GeneratorExp, ast.SetComp)):
                    it = node.generators[0].iter
                    body = [ast.Expr(node.elt)]
                if it is None:
                    continue
                src = ast.unparse(it)
                if not any(a in src for a in SET_ATTRS):
                    continue
                # order-sensitive sinks inside the iteration
                bad = []
                for sub in ast.walk(ast.Module(body=body, type_ignores=[])):
                    if isinstance(sub, ast.Call) and isinstance(sub.func, ast.Attribute) and \
                            sub.func.attr in ('append', 'extend', 'insert', 'write') :
                        bad.append(ast.unparse(sub)[:60])
                    if isinstance(sub, (ast.Yield, ast.YieldFrom)):
                        bad.append('yield')
                ordered = src.startswith('sorted(') or '.sort(' in src
                if isinstance(node, ast.ListComp) and not ordered:
                    # a list built from a set: must be sorted afterwards in the same function
                    later_sort = any(isinstance(s, ast.Call) and isinstance(s.func, ast.Attribute)
                                     and s.func.attr == 'sort' for s in ast.walk(fn))
                    if not later_sort:
                        bad.append('list built from a set without a sort')
                rows.append(('%s:%s iterates %s' % (rel.split('/')[-1], fn.name, src[:40]),
                             not bad or ordered, {'line': node.lineno, 'order_sensitive': bad}))
            # sequences made from a set: list(X)/tuple(X) must be sorted on a key
            # before use; X.pop() picks an arbitrary element
            for node in ast.walk(fn):
                if isinstance(node, ast.Call) and isinstance(node.func, ast.Name) and \
                        node.func.id in ('list', 'tuple') and node.args and \
                        any(a in ast.unparse(node.args[0]) for a in SET_ATTRS):
                    target = None
                    for st_ in ast.walk(fn):
                        if isinstance(st_, ast.Assign) and st_.value is node and \
                                isinstance(st_.targets[0], ast.Name):
                            target = st_.targets[0].id
                    sorted_later = target is not None and any(
                        isinstance(s_, ast.Call) and isinstance(s_.func, ast.Attribute)
                        and s_.func.attr == 'sort' and isinstance(s_.func.value, ast.Name)
                        and s_.func.value.id == target and
                        any(k.arg == 'key' and '_synth_index' in ast.unparse(k.value) for k in s_.keywords)
                        and s_.lineno > node.lineno
                        for s_ in ast.walk(fn))
                    rows.append(('%s:%s %s is sorted by _synth_index before use'
                                 % (rel.split('/')[-1], fn.name, ast.unparse(node)[:40]),
                                 sorted_later, {'line': node.lineno}))
                if isinstance(node, ast.Call) and isinstance(node.func, ast.Attribute) and \
                        node.func.attr == 'pop' and not node.args and \
                        any(a in ast.unparse(node.func.value) for a in SET_ATTRS):
                    rows.append(('%s:%s pops an arbitrary element of %s'
                                 % (rel.split('/')[-1], fn.name, ast.unparse(node.func.value)[:40]),
                                 False, {'line': node.lineno}))
    return rows


table('set-iteration-order-independence', props=('C20',), rows=_set_iteration_rows,
      reads=('sc3/synth/synthdef.py', 'sc3/synth/ugen.py'),
      note='UGen.__hash__ is id-based: set order depends on allocation history')


# ---- lock discipline: the build context is only written while the build lock is held ---
def _context_writes_rows(repo):
    rows = []
    for root, _, files in os.walk(os.path.join(repo, 'sc3')):
        for fn in files:
            if not fn.endswith('.py'):
                continue
            path = os.path.join(root, fn)
            rel = os.path.relpath(path, repo)
            tree = ast.parse(open(path).read())
            parents = {}
            for node in ast.walk(tree):
                for ch in ast.iter_child_nodes(node):
                    parents[ch] = node
            for node in ast.walk(tree):
                if isinstance(node, ast.Assign) and any(
                        isinstance(t, ast.Attribute) and t.attr == '_current_synthdef' for t in node.targets):
                    # initialisation at class/module level (no enclosing function) is not a build
                    p_ = node
                    in_func = False
                    locked = False
                    while p_ in parents:
                        p_ = parents[p_]
                        if isinstance(p_, ast.With) and any(
                                ast.unparse(i.context_expr).endswith('_def_build_lock') for i in p_.items):
                            locked = True
                        if isinstance(p_, (ast.FunctionDef, ast.AsyncFunctionDef)):
                            in_func = True
                            fname = p_.name
                            break
                    if not in_func:
                        continue
                    if fname in ('_init', '__init__', 'reset', '_setup'):
                        # process initialisation, before any build can run
                        continue
                    rows.append([rel, fname, locked, node.lineno])
    out, seen = [], {}
    for rel, fname, locked, line in sorted(rows, key=lambda r: (r[0], r[3])):
        k = seen[(rel, fname)] = seen.get((rel, fname), 0) + 1
        out.append(('%s:%s write #%d of the build context is under the build lock' % (rel, fname, k),
                    locked, {'line': line}))
    return out


table('build-context-lock-discipline', props=('C20',), rows=_context_writes_rows,
      reads=('sc3/**/*.py',),
      note='isolation of concurrent builds rests on every write of the context being inside '
           '`with main._def_build_lock:`')


# ---- which definition a new unit belongs to (C20: "unit generators created afterwards outside any build belong to no
# definition") -------------------------------------------------------------------------------------------------------------------
# SynthObject / OutputProxy / WidthFirstUGen._add_to_synth: the unit's definition is EXACTLY the build context of the
# moment (None outside a build); it registers with that definition - once - iff there is one (an output proxy never
# registers: it is part of its source unit); a width-first unit is also entered in the definition's width-first list.
UF = 'sc3/synth/ugen.py'
HAS_CTX = z3.Bool('a_build_is_in_progress')


def ats_getattr(eng, obj, name, st, node):
    if obj.k == 'ref' and obj.oid == 'main' and name == '_current_synthdef':
        return [(st, V('ref', cls='CtxDef', oid='ctx', extra={'maybe_none': z3.Not(HAS_CTX), 'truth': HAS_CTX}))]
    if obj.k == 'ref' and obj.cls == 'CtxDef' and name == '_add_ugen':
        def add(eng, a, kw, st, node):
            st.trace.append(('registered', tuple(a)))
            return [(st, NONE)]
        return [(st, V('func', py=('spec', add)))]
    if obj.k == 'ref' and obj.cls == 'CtxDef' and name == '_width_first_ugens':
        return [(st, V('obj', oid='ctx.width-first'))]
    if obj.k == 'obj' and obj.oid == 'ctx.width-first' and name == 'append':
        def app(eng, a, kw, st, node):
            st.trace.append(('width-first', tuple(a)))
            return [(st, NONE)]
        return [(st, V('func', py=('spec', app)))]
    return None


def ats_compare(eng, op, a, b, st, node):
    if isinstance(op, (ast.Is, ast.IsNot)):
        for p, q in ((a, b), (b, a)):
            if p.k == 'ref' and p.extra and 'maybe_none' in p.extra and q.k == 'none':
                r = p.extra['maybe_none']
                return z3.Not(r) if isinstance(op, ast.IsNot) else r
    return None


def ats_post(registers, width_first=False):
    def post(c):
        sd = c.st.objs.get('self', {}).get('_synthdef')
        reg = [e for e in c.trace if e[0] == 'registered']
        wf = [e for e in c.trace if e[0] == 'width-first']
        if sd is None or not (sd.k == 'ref' and sd.oid == 'ctx'):
            return z3.BoolVal(False)                                           # the context of the moment, nothing else
        me = lambda e: len(e[1]) == 1 and e[1][0].k == 'ref' and e[1][0].oid == 'self'
        if not registers:
            return z3.BoolVal(not reg and not wf)
        cl = [z3.BoolVal(len(reg) == 1 and me(reg[0])) == HAS_CTX, z3.BoolVal(not reg) == z3.Not(HAS_CTX)]
        if width_first:
            cl += [z3.BoolVal(len(wf) == 1 and me(wf[0])) == HAS_CTX, z3.BoolVal(not wf) == z3.Not(HAS_CTX)]
        else:
            cl.append(z3.BoolVal(not wf))
        return z3.And(*cl)
    return post


for _cls, _reg, _wf in (('SynthObject', True, False), ('OutputProxy', False, False), ('WidthFirstUGen', True, True)):
    contract(UF, _cls + '._add_to_synth', props=('C20',), params={'self': 'self'},
             ensures=[('belongs-to-the-build-context-of-the-moment;registered-once-iff-there-is-one', ats_post(_reg, _wf))],
             fields={_cls: {'_synthdef': 'obj'}, 'Main': MAIN_FIELDS, 'TimeThread': TT_FIELDS, 'CtxDef': {}},
             class_modules={_cls: UF, 'CtxDef': F}, hooks={'getattr': ats_getattr, 'compare': ats_compare},
             modifies=[('self', '_synthdef')], native=False)
