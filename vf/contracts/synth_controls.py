"""Contracts for the running slot counters of the control layout (C04).

A definition keeps a flat array of control defaults (SynthDef._controls), a
running slot counter (_control_index) and the name tables.  The layout law of
C04 ("the name-table entry points at the slots holding its defaults", "the
signal the body receives is the control output at that parameter's slots")
rests on one discipline, which is what is put under contract here:

  * a control unit, when it is created, takes as its first slot (special
    index) the CURRENT length of the defaults array, appends exactly its own
    values to it, and advances the slot counter by the same amount
    (Control/TrigControl, AudioControl, LagControl ._init_ugen);
  * hence `_control_index == len(_controls)` is an invariant of a definition
    under construction, and
  * a name entered with the counter (Control.add_name / AudioControl.add_name)
    or with the array length (SynthDef._add_ir/_add_tr/_add_ar/_add_kr) points
    at the first slot of the control unit created next.

The defaults array and the name tables are abstracted to their lengths
(ghost fields __nctl / __nnames / __nall of the definition) plus the trace of
what was appended; the values of the appended elements are the unit's own
`values` list (identity of the symbolic sequence).

SynthDef._args_to_controls (signature -> one control name per parameter) is
under contract at the end of this module.

SynthDef._build_controls (grouping by rate) is under contract in
synth_buildcontrols.  Bounded driver C04 only: reshape_like itself, the writer.
"""
import ast
import z3
from vf.pyvc.spec import contract, lemma
from vf.pyvc.values import *
from vf.pyvc import values as VV
from vf.pyvc.engine import Raised, Unsupported

F = 'sc3/synth/ugens/inout.py'
FS = 'sc3/synth/synthdef.py'

SD = {'_controls': 'obj', '_control_names': 'obj', '_all_control_names': 'obj',
      '_control_index': 'int', '__nctl': 'int', '__nnames': 'int', '__nall': 'int'}
CN = {'default_value': ['none', 'any'], 'name': 'any', 'index': 'any', 'rate': 'any',
      'arg_num': 'any', 'lag': 'any'}
UG = {'_synthdef': ['none', 'ref:SynthDef'], '_special_index': 'int', 'values': 'any',
      '_inputs': 'any', 'rate': 'any'}
FIELDS = {'Control': UG, 'AudioControl': UG, 'LagControl': UG, 'TrigControl': UG,
          'SynthDef': SD, 'ControlName': CN,
          'Main': {'_current_synthdef': 'ref:SynthDef'}}


def values_kind(eng, name):
    n = z3.Int(name + '.len')
    v = V('seq', extra={'len': n, 'oid': name, 'facts': [n >= 0],
                        'get': (lambda eng_, i, st_, _n=name: V('any', z3.Const('%s[%s]' % (_n, i), VV_Any())))})
    return v


def VV_Any():
    from vf.pyvc import values as VV
    return VV.Any


def ghost(st, oid, name):
    f = st.objs.setdefault(oid, {})
    if name not in f:
        f[name] = vint(z3.Int('%s.%s' % (oid, name)))
    return f[name]


def sd_oid(st, obj):
    return obj.extra.get('owner') if obj.extra else None


def h_getattr(eng, obj, name, st, node):
    # the three lists of the definition, abstracted to their lengths
    if obj.k == 'ref' and obj.cls == 'SynthDef' and name in ('_controls', '_control_names', '_all_control_names'):
        g = {'_controls': '__nctl', '_control_names': '__nnames', '_all_control_names': '__nall'}[name]
        ln = ghost(st, obj.oid, g).z
        return [(st, V('seq', extra={'len': ln, 'owner': obj.oid, 'which': name, 'ghost': g,
                                     'get': None}))]
    if obj.k == 'seq' and obj.extra.get('owner') is not None and name in ('extend', 'append'):
        def grow(eng, args, kwargs, st, node, _o=obj, _m=name):
            oid, g = _o.extra['owner'], _o.extra['ghost']
            cur = ghost(st, oid, g).z
            if _m == 'extend':
                a = args[0]
                if a.k == 'seq':
                    k = a.extra['len']
                elif a.k in ('list', 'tuple') and a.items is not None:
                    k = z3.IntVal(len(a.items))
                elif a.k == 'list' and a.extra and 'seq' in a.extra:
                    k = a.extra['seq'].extra['len']
                else:
                    raise Unsupported(node, 'extend with %r' % (a,))
            else:
                k = z3.IntVal(1)
            st.objs[oid][g] = vint(cur + k)
            st.trace.append((_m, _o.extra['which'], args[0], cur))
            return [(st, NONE)]
        return [(st, V('func', py=('spec', grow)))]
    if obj.k == 'ref' and obj.oid == 'main' and name == '_current_synthdef':
        return [(st, V('ref', cls='SynthDef', oid='sd'))]
    return None


def h_getitem(eng, obj, idx, st, node):
    # ctl_names[-1]: the entry added last
    if obj.k == 'seq' and obj.extra.get('which') == '_control_names':
        return [(st, V('ref', cls='ControlName', oid='last_cn'))]
    return None


def opaque_any(name):
    def f(eng, selfv, args, kwargs, st, node):
        st.trace.append(('call', name, tuple(args)))
        return [(st, V('obj', oid='%s!%d' % (name, next(eng.counter))))]
    return f


HOOKS = {'getattr': h_getattr, 'getitem': h_getitem}


def seq_len(v):
    if isinstance(v, V):
        if v.k == 'seq':
            return v.extra['len']
        if v.k == 'list' and v.extra and 'seq' in v.extra:
            return v.extra['seq'].extra['len']
        if v.k in ('list', 'tuple') and v.items is not None:
            return z3.IntVal(len(v.items))
    return None


def counters(c, sd='sd'):
    pre = c.pre.self._synthdef if False else None
    return pre


def init_post(nvals):
    """nvals(c) -> z3 Int: how many of the positional arguments are control values"""
    def post(c):
        sd_pre = c.st.objs  # post objs; pre values are the named z3 constants
        n = nvals(c)
        nctl0, idx0 = z3.Int('self._synthdef.__nctl'), z3.Int('self._synthdef._control_index')
        sdv = c.pre.self.v('_synthdef')
        me = c.post.self
        if sdv.k == 'none':
            # outside a definition: nothing of any definition is touched
            return z3.BoolVal(not any(e[0] in ('extend', 'append') for e in c.trace))
        sd = c.post.self._synthdef
        ext = [e for e in c.trace if e[0] == 'extend' and e[1] == '_controls']
        if len(ext) != 1:
            return z3.BoolVal(False)
        vals = me.v('values')
        appended_own_values = ext[0][2] is vals or (seq_len(ext[0][2]) is not None and
                                                     seq_len(vals) is not None and
                                                     ext[0][2].extra is vals.extra)
        return z3.And(
            me._special_index == nctl0,                                  # first slot = array length before
            z3.BoolVal(bool(appended_own_values)),                        # exactly its own values appended
            seq_len(vals) == n,
            sd.__getattr__('__nctl') == nctl0 + n,
            sd._control_index == idx0 + n,
            z3.Implies(idx0 == nctl0, sd._control_index == sd.__getattr__('__nctl')))   # the invariant
    return post


def last_name_frame(lastdef):
    """Control only: the name entered last gets this unit's values as its default iff there
    is such a name and it had none yet"""
    def post(c):
        w = [e for e in c.trace if e[0] == 'call' and e[1] == 'unbubble']
        sdv = c.pre.self.v('_synthdef')
        if sdv.k == 'none' or lastdef != 'none':
            return z3.BoolVal(not w)
        has_names = z3.Int('self._synthdef.__nnames') > 0
        if not w:
            return z3.Not(has_names)
        vals = c.post.self.v('values')
        arg = w[0][2][0]
        own = arg is vals or (isinstance(arg, V) and arg.k == 'seq' and arg.extra is vals.extra)
        dv = c.st.objs.get('last_cn', {}).get('default_value')
        return z3.And(has_names, z3.BoolVal(len(w) == 1 and bool(own)),
                      z3.BoolVal(dv is not None and dv.k == 'obj' and str(dv.oid).startswith('unbubble')))
    return post


def fields_for(where, lastdef='none'):
    ug = dict(UG, _synthdef=('ref:SynthDef' if where.startswith('in-definition') else 'none'))
    f = dict(FIELDS)
    f['ControlName'] = dict(CN, default_value=lastdef)
    for k in ('Control', 'AudioControl', 'LagControl', 'TrigControl'):
        f[k] = ug
    return f


def common(where, lastdef='none'):
    return dict(fields=fields_for(where, lastdef), hooks=HOOKS, native=False,
                class_modules={'Control': F, 'AudioControl': F, 'LagControl': F, 'SynthDef': FS,
                               'ControlName': F},
                policies={'Control._init_outputs': opaque_any('_init_outputs'),
                          'AudioControl._init_outputs': opaque_any('_init_outputs'),
                          'LagControl._init_outputs': opaque_any('_init_outputs'),
                          'MultiOutUGen._init_outputs': opaque_any('_init_outputs'),
                          'sc3/base/utils.py::unbubble': opaque_any('unbubble')})


def variant(qual, where):
    from vf.pyvc.spec import REGISTRY
    key = '%s::%s#%s' % (F, qual, where)
    REGISTRY[key] = REGISTRY.pop('%s::%s' % (F, qual))
    REGISTRY[key].key = key


def lag_n(c):
    # LagControl._init_ugen(*stuff): the first half are the values, the second half the lags
    ln = c._params['stuff'].extra['len']
    return ln / 2          # size >> 1 == floor(size / 2) for size >= 0


def lag_inputs(c):
    stuff = c._params['stuff']
    ins = c.post.self.v('_inputs')
    so = ins.extra.get('slice_of') if ins.k == 'seq' and ins.extra else None
    if so is None or so[0] is not stuff.extra:
        return z3.BoolVal(False)
    n = stuff.extra['len']
    return z3.And(so[1] == n / 2, ins.extra['len'] == n - n / 2)


for where in ('in-definition', 'outside'):
    for lastdef in (('none', 'any') if where == 'in-definition' else ('none',)):
        tag = where + ('' if where == 'outside' else '-last-name-default-' + lastdef)
        contract(F, 'Control._init_ugen', props=('C04',),
                 params={'self': 'self', 'values': values_kind},
                 ensures=[('first-slot-is-array-length;array-and-counter-advance-by-own-values',
                           init_post(lambda c: c._params['values'].extra['len'])),
                          ('last-name-default-filled-iff-missing', last_name_frame(lastdef))],
                 # the two variants split on whether the last name already has a default
                 requires=((lambda c: VV.tag_of(z3.Const('last_cn.default_value', VV.Any)) != TAGS['none'])
                           if lastdef == 'any' else None),
                 **common(where, lastdef))
        variant('Control._init_ugen', tag)
    contract(F, 'AudioControl._init_ugen', props=('C04',),
             params={'self': 'self', 'values': values_kind},
             ensures=[('first-slot-is-array-length;array-and-counter-advance-by-own-values',
                       init_post(lambda c: c._params['values'].extra['len']))],
             **common(where))
    variant('AudioControl._init_ugen', where)
    contract(F, 'LagControl._init_ugen', props=('C04',),
             params={'self': 'self', 'stuff': values_kind},
             ensures=[('first-slot-is-array-length;array-and-counter-advance-by-half-of-the-arguments',
                       init_post(lag_n)),
                      ('the-lag-times-(second-half-of-the-arguments)-are-the-units-inputs', lag_inputs)],
             **common(where))
    variant('LagControl._init_ugen', where)


# ---- names: the index a name gets is the slot its control unit will start at ----------
RATE_OF = {'_add_ir': 'scalar', '_add_tr': 'trigger', '_add_ar': 'audio', '_add_kr': 'control'}
SD_FIELDS = dict(FIELDS)
SD_FIELDS['ControlName'] = {'default_value': 'any', 'name': 'any', 'index': 'any', 'rate': 'any',
                            'arg_num': 'any', 'lag': 'any'}


def add_post(meth):
    def post(c):
        a1 = [e for e in c.trace if e[0] == 'append' and e[1] == '_control_names']
        a2 = [e for e in c.trace if e[0] == 'append' and e[1] == '_all_control_names']
        if len(a1) != 1 or len(a2) != 1 or a1[0][2] is not a2[0][2]:
            return z3.BoolVal(False)
        cn = a1[0][2]
        if cn.k != 'ref' or cn.cls != 'ControlName':
            return z3.BoolVal(False)
        f = c.st.objs.get(cn.oid, {})
        nctl0, nn0 = z3.Int('self.__nctl'), z3.Int('self.__nnames')
        idx, argn, rate, dv, nm = (f.get(k) for k in ('index', 'arg_num', 'rate', 'default_value', 'name'))
        ok = (idx is not None and idx.k == 'int' and argn is not None and argn.k == 'int'
              and rate is not None and rate.k == 'str' and rate.py == RATE_OF[meth]
              and dv is c._params['value'] and nm is c._params['name'])
        if not ok:
            return z3.BoolVal(False)
        return z3.And(idx.z == nctl0,               # points at the first slot of the unit created next
                      argn.z == nn0,                # position among the function's parameters
                      c.post.self.__getattr__('__nnames') == nn0 + 1,
                      c.post.self.__getattr__('__nall') == z3.Int('self.__nall') + 1,
                      c.post.self.__getattr__('__nctl') == nctl0)
    return post


for meth in RATE_OF:
    params = {'self': 'self', 'name': 'any', 'value': 'any'}
    if meth == '_add_kr':
        params['lag'] = ['none', 'real']
    contract(FS, 'SynthDef.' + meth, props=('C04',), params=params,
             ensures=[('one-entry-in-both-tables;index=slots-so-far;arg_num=names-so-far;rate', add_post(meth))],
             fields=SD_FIELDS, hooks=HOOKS, native=False,
             class_modules={'SynthDef': FS, 'ControlName': F},
             inline=('SynthDef._add_control_name', 'ControlName.__init__'), opts={'construct': ('ControlName',)})


# ---- lemma over these contracts: the layout the name table describes -------------------
def _layout():
    """A rate group is built as: k names entered (each with index = slots so far... as
    _build_controls re-assigns them: index_i = base + sum of the sizes before i), then ONE
    control unit holding the flattened defaults of the group.  With the contracts above:
    the unit's first slot is the array length = base (invariant counter == length), it
    appends sum(sizes) values, so name i's slots [index_i, index_i + size_i) are inside the
    unit's slots, consecutive and disjoint, and the next group starts where this one ends."""
    base, nctl, idx = z3.Ints('Lbase Lnctl Lidx')
    s0, s1, s2 = z3.Ints('Ls0 Ls1 Ls2')
    a = [nctl >= 0, idx == nctl,                       # invariant before the group
         base == idx,                                  # `index = self._control_index`
         s0 >= 1, s1 >= 1, s2 >= 1]
    i0, i1, i2 = base, base + s0, base + s0 + s1       # `cn.index = index; index += len(...)`
    special = nctl                                     # Control._init_ugen contract
    n = s0 + s1 + s2                                   # values of the unit (flattened defaults)
    nctl2, idx2 = nctl + n, idx + n                    # ... contract, counters after
    return a, z3.And(i0 == special, i0 + s0 == i1, i1 + s1 == i2, i2 + s2 == special + n,
                     idx2 == nctl2,                    # invariant re-established
                     i2 + s2 == idx2)                  # the next group's base


lemma('names-of-a-rate-group-tile-the-slots-of-its-control-unit', props=('C04',),
      over=(F + '::Control._init_ugen#in-definition-last-name-default-none',
            F + '::AudioControl._init_ugen#in-definition', F + '::LagControl._init_ugen#in-definition'),
      vcs=[('three-names-then-one-unit', _layout)],
      note='instantiated for three names per group (the arithmetic is the same for any number); '
           'that _build_controls performs exactly these steps is checked by the bounded C04 driver')


# ---- SynthDef._args_to_controls: signature -> one control name per parameter ("signature -> ControlName records") ----
# With  skip = skip_args,  P(j) = the j-th parameter of the function,  k = 0, 1, ... the controls in order:
#   * the metadata defaults are asked for with ALIGNED lists: names[k] = P(skip+k).name and
#     values[k] = valid-default(P(skip+k)), both of length  #parameters - skip;
#   * pass k of the main loop enters exactly ONE control name, through the _add_* method of its rate group:
#       name   P(skip+k).name
#       value  the metadata-adjusted default number k
#       group  the rates entry k if it is a rate name (it overrides), else the annotation of P(skip+k) if it has
#              one, else control rate
#       lag    (control rate only) the rates entry k (missing -> 0, None -> 0.0, 'kr' -> 0.0)
# inspect.* are ghost objects; _get_valid_arg_values and _apply_metadata_specs are ghost calls (elementwise /
# positionwise uninterpreted results); the three list comprehensions are executed by the engine as maps.
from vf.pyvc.spec import Loop as _ALoop
A_ = VV.Any
P_NAME = z3.Function('param_name', z3.IntSort(), A_)
P_KIND = z3.Function('param_kind', z3.IntSort(), A_)
P_DEFAULT = z3.Function('param_default', z3.IntSort(), A_)
P_ANNOT = z3.Function('param_annotation', z3.IntSort(), A_)
P_VALID = z3.Function('valid_default_of_param', z3.IntSort(), A_)
META = z3.Function('metadata_adjusted_default', z3.IntSort(), A_)
RATE_IN = z3.Function('rates_entry', z3.IntSort(), A_)
IS_PORK = z3.Function('is_positional_or_keyword', A_, z3.BoolSort())
IS_EMPTY = z3.Function('is_signature_empty', A_, z3.BoolSort())
NPAR = z3.Int('params.len')
NRATES = z3.Int('rates.len')


def param_ref(i):
    tag = str(z3.simplify(i)).replace(' ', '')
    return V('ref', cls='Param', oid='param[%s]' % tag, extra={'index': i})


def a2c_getattr(eng, obj, name, st, node):
    if obj.k == 'module' and obj.py == 'ext:inspect':
        if name == 'isfunction':
            return [(st, V('func', py=('spec', lambda eng, a, kw, st, node: [(st, vbool(True))])))]
        if name == 'signature':
            def sig(eng, a, kw, st, node):
                st.trace.append(('signature-of', a[0]))
                return [(st, V('obj', oid='the-signature'))]
            return [(st, V('func', py=('spec', sig)))]
        if name in ('Parameter', 'Signature'):
            return [(st, V('obj', oid='inspect.' + name))]
    if obj.k == 'obj' and obj.oid == 'inspect.Parameter' and name == 'POSITIONAL_OR_KEYWORD':
        return [(st, V('obj', oid='PORK'))]
    if obj.k == 'obj' and obj.oid == 'inspect.Signature' and name == 'empty':
        return [(st, V('obj', oid='EMPTY'))]
    if obj.k == 'obj' and obj.oid == 'the-signature' and name == 'parameters':
        return [(st, V('obj', oid='the-parameters'))]
    if obj.k == 'obj' and obj.oid == 'the-parameters' and name == 'values':
        def vals(eng, a, kw, st, node):
            return [(st, V('seq', extra={'len': NPAR, 'facts': [NPAR >= 0],
                                         'get': (lambda eng_, i, st_: param_ref(i))}))]
        return [(st, V('func', py=('spec', vals)))]
    if obj.k == 'ref' and obj.cls == 'Param':
        f = {'name': P_NAME, 'kind': P_KIND, 'default': P_DEFAULT, 'annotation': P_ANNOT}.get(name)
        if f is not None:
            return [(st, V('any', f(obj.extra['index'])))]
    return None


def a2c_compare(eng, op, a, b, st, node):
    for x, y in ((a, b), (b, a)):
        if x.k == 'any' and y.k == 'obj' and y.oid in ('PORK', 'EMPTY') and isinstance(op, (ast.Eq, ast.NotEq)):
            r = (IS_PORK if y.oid == 'PORK' else IS_EMPTY)(x.z)
            return z3.Not(r) if isinstance(op, ast.NotEq) else r
    return None


def a2c_builtin_first(eng, name, args, kwargs, st, node):
    if name == 'any':
        return [(st, vbool(z3.Bool('tuple_default_holds_a_container!%d' % next(eng.counter))))]
    return None


def a2c_listcomp(eng, e, it, st, node):
    # (isinstance(v, Container) for v in p.default): only its truth under any() matters (see builtin_first)
    if isinstance(e, ast.GeneratorExp) and it.k in ('any', 'dyn'):
        return [(st, V('obj', oid='generator-over-a-default'))]
    return None


def valid_pol(eng, selfv, args, kwargs, st, node):
    src = args[0]
    if src.k != 'seq' or not src.extra.get('get'):
        raise Unsupported(node, '_get_valid_arg_values of %r' % (src,))
    g = src.extra['get']

    def get(eng_, i, st_):
        p = g(eng_, i, st_)
        if p.k != 'ref' or p.cls != 'Param':
            raise Unsupported(node, 'valid value of a non-parameter')
        return V('any', P_VALID(p.extra['index']))
    return [(st, V('seq', extra={'len': src.extra['len'], 'get': get}))]


def meta_pol(eng, selfv, args, kwargs, st, node):
    names, values = args[0], args[1]
    if names.k != 'seq' or values.k != 'seq':
        raise Unsupported(node, 'metadata arguments %r %r' % (names, values))
    k = z3.Int('meta.k!%d' % next(eng.counter))
    probe = st.fork()
    probe.pc.extend([k >= 0, k < names.extra['len'], k < values.extra['len']])
    nk, vk = names.extra['get'](eng, k, probe), values.extra['get'](eng, k, probe)
    st.trace.append(('metadata', names.extra['len'], values.extra['len'], k, nk, vk, probe.pc[len(st.pc):]))
    return [(st, V('seq', extra={'len': values.extra['len'], 'get': (lambda eng_, i, st_: V('any', META(i)))}))]


def add_pol(group):
    def pol(eng, selfv, args, kwargs, st, node):
        st.trace.append(('add-control', group, tuple(args)))
        return [(st, NONE)]
    return pol


def a2c_since(trace, ordinal):
    idx = -1
    for i, e in enumerate(trace):
        if e[0] == 'loop-head' and e[1] == ordinal:
            idx = i
    return trace[idx + 1:] if idx >= 0 else None


def as_any(eng, v):
    facts = []
    z = eng.box_any(v, facts, None)
    return z, facts


def a2c_main(c, L):
    eng = c._eng
    ev = a2c_since(c.trace, 3)
    if not ev:
        return z3.BoolVal(True)
    adds = [e for e in ev if e[0] == 'add-control']
    if len(adds) != 1:
        return z3.BoolVal(False)
    group, args = adds[0][1], adds[0][2]
    k = L.i - 1
    skip = c.skip_args
    if len(args) != (3 if group == 'kr' else 2) or args[0].k != 'any' or args[1].k != 'any':
        return z3.BoolVal(False)
    entry = z3.If(k < NRATES, RATE_IN(k), eng.box_any(vint(0), [], None))
    is_none = VV.tag_of(entry) == TAGS['none']
    ann = P_ANNOT(skip + k)
    has_ann = z3.Not(IS_EMPTY(ann))

    def named(z, r):
        return z3.And(VV.tag_of(z) == TAGS['str'], eng.str_is(r)(z))
    over = {r: z3.And(z3.Not(is_none), named(entry, r)) for r in ('ir', 'tr', 'ar', 'kr')}
    overridden = z3.Or(*over.values())
    want = {r: z3.Or(over[r], z3.And(z3.Not(overridden), has_ann, named(ann, r))) for r in ('ir', 'tr', 'ar')}
    expected_group = z3.If(want['ir'], 0, z3.If(want['tr'], 1, z3.If(want['ar'], 2, 3)))
    got_group = {'ir': 0, 'tr': 1, 'ar': 2, 'kr': 3}[group]
    clauses = [args[0].z == P_NAME(skip + k), args[1].z == META(k), expected_group == got_group]
    if group == 'kr':
        lag = args[2]
        facts = []
        lz = eng.box_any(lag, facts, None)
        zero = z3.And(VV.tag_of(lz) == TAGS['float'], VV.any_real(lz) == 0)
        clauses.append(z3.Implies(z3.And(*facts) if facts else z3.BoolVal(True),
                                  z3.If(z3.Or(is_none, over['kr']), zero,
                                        z3.If(k < NRATES, lz == entry,
                                              z3.And(VV.tag_of(lz) == TAGS['int'], VV.any_int(lz) == 0)))))
    return z3.And(*clauses)


def a2c_post(c):
    metas = [e for e in c.trace if e[0] == 'metadata']
    if not metas:
        return NPAR == 0                                   # a function without parameters: nothing to do
    if len(metas) != 1:
        return z3.BoolVal(False)
    _, nlen, vlen, k, nk, vk, facts = metas[0]
    skip = c.skip_args
    if nk.k != 'any' or vk.k != 'any':
        return z3.BoolVal(False)
    return z3.And(nlen == vlen,
                  z3.Implies(z3.And(*facts), z3.And(nk.z == P_NAME(skip + k), vk.z == P_VALID(skip + k))))


def rates_kind(eng, name):
    return V('seq', extra={'len': NRATES, 'facts': [NRATES >= 0], 'get': (lambda eng_, i, st_: V('any', RATE_IN(i)))})


TRUE_INV = lambda c, L: z3.BoolVal(True)


# WHAT each loop runs over (checked at an arbitrary position k): all parameters / the parameters after the
# prepended ones / their annotations / their names with their position
def over_params(shifted):
    def over(c, sq, k, elem):
        skip = c.skip_args if shifted else z3.IntVal(0)
        ok = elem.k == 'ref' and elem.cls == 'Param'
        return sq.extra['len'] == NPAR - skip, (elem.extra['index'] == skip + k) if ok else z3.BoolVal(False)
    return over


def over_annotations(c, sq, k, elem):
    ann = P_ANNOT(c.skip_args + k)
    if elem.k != 'any':
        return z3.BoolVal(False), z3.BoolVal(False)
    return (sq.extra['len'] == NPAR - c.skip_args,
            z3.If(IS_EMPTY(ann), VV.tag_of(elem.z) == TAGS['none'], elem.z == ann))


def over_names(c, sq, k, elem):
    ok = elem.k == 'tuple' and len(elem.items) == 2 and elem.items[0].k == 'int' and elem.items[1].k == 'any'
    if not ok:
        return z3.BoolVal(False), z3.BoolVal(False)
    return (sq.extra['len'] == NPAR - c.skip_args,
            z3.And(elem.items[0].z == k, elem.items[1].z == P_NAME(c.skip_args + k)))
contract(FS, 'SynthDef._args_to_controls', props=('C04',),
         params={'self': 'self', 'func': 'obj', 'rates': rates_kind, 'skip_args': 'int'},
         requires=lambda c: z3.And(c.skip_args >= 0, c.skip_args <= NPAR),
         ensures=[('metadata-defaults-asked-with-aligned-names-and-values', a2c_post)],
         raises={'ValueError': None},
         loops={0: _ALoop(inv=TRUE_INV, over=over_params(False), kinds={'p': (lambda eng, n: V('obj', oid='havoc'))}),
                1: _ALoop(inv=TRUE_INV, over=over_params(True), kinds={'p': (lambda eng, n: V('obj', oid='havoc'))}),
                2: _ALoop(inv=TRUE_INV, over=over_annotations, kinds={'a': 'any'}),
                3: _ALoop(inv=a2c_main, over=over_names, kinds={'i': 'int', 'name': 'any', 'value': 'any', 'annot': 'any',
                                                'lag': 'any', 'overridden': 'bool'})},
         fields={'SynthDef': SD, 'Param': {}},
         hooks={'getattr': a2c_getattr, 'compare': a2c_compare, 'builtin_first': a2c_builtin_first,
                'listcomp': a2c_listcomp},
         policies={'SynthDef._get_valid_arg_values': valid_pol, 'SynthDef._apply_metadata_specs': meta_pol,
                   'SynthDef._add_ir': add_pol('ir'), 'SynthDef._add_tr': add_pol('tr'),
                   'SynthDef._add_ar': add_pol('ar'), 'SynthDef._add_kr': add_pol('kr')},
         class_modules={'SynthDef': FS, 'Param': FS}, native=False,
         note='skip_args within the number of parameters; a function object with an inspectable signature')
