# C01 -- SynthDef compilation preserves the meaning of the graph function.
#
#   /venv/bin/python -m vf.drivers.C01 --tier quick --seed 0 --out f.json
#
# Contract on SynthDef(name, func) / as_bytes(), per generated program
# (vf/specs/graphgen.py), with the denotation oracle vf/specs/den.py and the
# independent SCgf-2 reader vf/specs/scgf.py:
#
#   compile     a well-formed program builds and writes without an exception
#   units       every source Out and every tagged stateful leaf occurs at most
#               once; non-pure leaves and Outs exactly once (referenced or not);
#               no Out / leaf-class unit the source does not contain
#   denotation  inputs of each Out unit == source expressions, as polynomials
#               over one atom per stateful unit output / control
#   opcode      BinaryOpUGen/UnaryOpUGen special indices are Opcodes.h numbers of
#               operators the program uses (+ - * / neg and the opaque ones)
#   rate        arithmetic units run at the max rate of their inputs, leaves and
#               Outs at the rate they were created with
import hashlib
import multiprocessing as mp
import random
import traceback

from vf.common import Report, driver_main, wants, silence_sc3_logging
from vf.specs import scgf, den
from vf.specs import graphgen as gg

NPROC = 16
ALLOWED_HELPERS = ('DC', 'Control')
OUT_CLASSES = ('Out', 'ReplaceOut', 'OffsetOut', 'XOut', 'LocalOut')


# ---------------------------------------------------------------------------
# one program

def _init_sc3():
    import warnings
    warnings.simplefilter('ignore')
    silence_sc3_logging()
    import sc3
    sc3.init('nrt')
    gg.install_bytesio_guard()


def _snapshot():
    """Classification aid only (never part of a verdict; it only chooses the
    stable key of an already established failure): look at the units the graph
    function created, before the optimiser runs."""
    feats = {}
    try:
        from sc3.base import main as _m
        from sc3.synth import ugen as ugn
        sd = _m.main._current_synthdef
        kids = list(sd._children)
        users = {id(u): set() for u in kids}
        for u in kids:
            for x in u.inputs:
                if isinstance(x, ugn.OutputProxy):
                    x = x.source_ugen
                if id(x) in users:
                    users[id(x)].add(id(u))
        for u in kids:
            if isinstance(u, ugn.BinaryOpUGen) and len(u.inputs) == 2:
                a, b = u.inputs
                if a is b and isinstance(a, ugn.UGen):
                    if u.operator == '-' and isinstance(a, ugn.UnaryOpUGen) \
                            and a.operator == 'neg' \
                            and users.get(id(a)) == {id(u)}:
                        feats['sub_same_neg'] = True
    except Exception:
        feats['snapshot_failed'] = True
    return feats


def build(prog, name='c01', log=None, feats=None):
    """-> bytes of the definition (raises what sc3 raises)."""
    from sc3.synth.synthdef import SynthDef
    at_end = None
    if feats is not None:
        at_end = lambda vals: feats.update(_snapshot())
    func = gg.make_func(prog, log, at_end)
    sd = SynthDef(name, func)
    return bytes(sd.as_bytes())


def _innermost_sc3_frame(exc):
    tb = traceback.extract_tb(exc.__traceback__)
    for fr in reversed(tb):
        if '/sc3/' in fr.filename:
            return fr.name
    return '?'


def _const_inputs(d, u):
    r = []
    for (a, b) in u.inputs:
        if a != -1 or not (0 <= b < len(d.constants)):
            return None
        r.append(d.constants[b])
    return tuple(r)


def _check_once(prog, name='c01'):
    """-> (failures, info).  failure = dict(clause, key, what, observed,
    expected); graph-family keys are provisional (see check_program)."""
    fails = []
    info = {'nontrivial': False, 'unknown_units': []}

    def fail(clause, key, what, observed=None, expected=None):
        fails.append({'clause': clause, 'key': key, 'what': what,
                      'observed': observed, 'expected': expected})

    srcvals, _ = den.den_source(prog)
    live = gg.live_nodes(prog)
    if len(live) < len(prog['nodes']):
        info['nontrivial'] = True
    log, feats = {}, {}
    try:
        data = build(prog, name, log, feats)
    except Exception as e:
        site = _innermost_sc3_frame(e)
        tname = type(e).__name__
        if tname == 'KeyError' and site == '_perform_dead_code_elimination':
            key = 'C01.compile:dce-same-input-twice'
        else:
            key = 'C01.compile:%s@%s' % (tname, site)
        fail('C01.compile', key,
             'SynthDef() of a well-formed program raised %s: %s' % (
                 tname, str(e)[:200]),
             observed='%s in %s' % (tname, site), expected='a definition')
        return fails, info
    info['feats'] = feats
    info['numvals'] = {i: v for i, v in enumerate(log.get('vals', []))
                       if isinstance(v, (int, float))}
    dkey = ('C01.denotation:optimize-sub-a-is-b' if feats.get('sub_same_neg')
            else None)
    try:
        defs = scgf.parse(data)
        if len(defs) != 1:
            raise scgf.ScgfError('%d definitions' % len(defs))
        d = defs[0]
        table = den.den_def(d)
    except den.DenTooLarge:
        info['inconclusive'] = True
        return fails, info
    except (scgf.ScgfError, den.DenError) as e:
        fail('C01.denotation', dkey or 'C01.denotation:unreadable-definition',
             'emitted bytes cannot be interpreted: %s' % e,
             observed=data.hex()[:400], expected='one SCgf-2 definition')
        return fails, info

    # ---- units --------------------------------------------------------
    matched = set()
    for i, nd in enumerate(prog['nodes']):
        if nd[0] != 'osc':
            continue
        cls, rate, tag = nd[1], nd[2], nd[3]
        want = tuple(float(x) for x in gg.leaf_inputs(cls, tag))
        ms = [u for u in d.ugens if u.name == cls and _const_inputs(d, u) == want]
        pure = gg.LEAF_CLASSES[cls]['pure']
        if len(ms) > 1:
            fail('C01.units', dkey or 'C01.units:duplicated',
                 'node %d %s.%s(%s) occurs %d times' % (i, cls, rate, tag, len(ms)),
                 observed=len(ms), expected=1)
        if not ms and not pure:
            fail('C01.units', dkey or 'C01.units:side-effecting-unit-dropped',
                 'non-pure node %d %s.%s(%s) is missing' % (i, cls, rate, tag),
                 observed=0, expected=1)
        for u in ms:
            matched.add(u.index)
            r = den.RATE_NUM[rate]
            if u.rate != r or list(u.outputs) != [r]:
                fail('C01.rate', 'C01.rate:leaf',
                     'node %d %s created at %s is written with rate %d outputs %s'
                     % (i, cls, rate, u.rate, u.outputs),
                     observed=[u.rate, list(u.outputs)], expected=[r, [r]])
    outs_logged = log.get('outs', [])
    out_units = {}
    for e in outs_logged:
        r = den.RATE_NUM[e['rate']]
        ms = [u for u in d.ugens if u.name == 'Out' and u.rate == r and u.inputs
              and u.inputs[0][0] == -1
              and 0 <= u.inputs[0][1] < len(d.constants)
              and d.constants[u.inputs[0][1]] == float(e['bus'])]
        if len(ms) != 1:
            fail('C01.units', dkey or 'C01.units:out-count',
                 'Out.%s(%d, ...) occurs %d times in the definition' % (
                     e['rate'], e['bus'], len(ms)),
                 observed=len(ms), expected=1)
        for u in ms:
            matched.add(u.index)
        if len(ms) == 1:
            out_units[e['bus']] = ms[0]
    for u in d.ugens:
        if u.index in matched:
            continue
        if u.name in gg.LEAF_CLASSES or u.name in OUT_CLASSES:
            fail('C01.units', dkey or 'C01.units:spurious',
                 'unit %d %s (rate %d) corresponds to no source unit' % (
                     u.index, u.name, u.rate),
                 observed=repr(u), expected='absent')
        elif u.name not in den.ARITH_UNITS and u.name not in ALLOWED_HELPERS:
            info['unknown_units'].append(u.name)

    # ---- denotation ---------------------------------------------------
    for e in outs_logged:
        u = out_units.get(e['bus'])
        if u is None:
            continue
        forms = den.input_forms(d, table, u)[1:]
        want = [srcvals[j] for j in e['chans']]
        if len(forms) != len(want):
            fail('C01.denotation', dkey or 'C01.denotation:channel-count',
                 'Out at bus %d has %d signal inputs, source has %d' % (
                     e['bus'], len(forms), len(want)),
                 observed=len(forms), expected=len(want))
            continue
        for c, (f, w) in enumerate(zip(forms, want)):
            if not den.equal(f, w):
                fail('C01.denotation', dkey or 'C01.denotation:mismatch',
                     'Out at bus %d channel %d denotes a different signal' % (
                         e['bus'], c),
                     observed=den.show(f)[:300], expected=den.show(w)[:300])

    # ---- opcodes, rates of arithmetic units ---------------------------
    binops = {den.OP_ADD, den.OP_SUB, den.OP_MUL, den.OP_FDIV}
    unops = {den.OP_NEG}
    for nd in prog['nodes']:
        if nd[0] in gg.OPAQUE_BIN:
            binops.add(den.BINARY_OPCODES[nd[0]])
        if nd[0] in gg.OPAQUE_UN:
            unops.add(den.UNARY_OPCODES[nd[0]])
    for u in d.ugens:
        if u.name == 'BinaryOpUGen' and u.special not in binops:
            fail('C01.opcode', 'C01.opcode:binary',
                 'BinaryOpUGen %d carries opcode %d, no operator of the program'
                 % (u.index, u.special), observed=u.special,
                 expected=sorted(binops))
        if u.name == 'UnaryOpUGen' and u.special not in unops:
            fail('C01.opcode', 'C01.opcode:unary',
                 'UnaryOpUGen %d carries opcode %d, no operator of the program'
                 % (u.index, u.special), observed=u.special,
                 expected=sorted(unops))
        if u.name in den.ARITH_UNITS:
            info['nontrivial'] = True
            rin = 0
            for (a, b) in u.inputs:
                if a != -1:
                    rin = max(rin, d.ugens[a].outputs[b])
            if u.rate != rin or list(u.outputs) != [rin]:
                fail('C01.rate', 'C01.rate:arithmetic-unit',
                     '%s %d runs at rate %d (outputs %s), its inputs at most at %d'
                     % (u.name, u.index, u.rate, u.outputs, rin),
                     observed=[u.rate, list(u.outputs)], expected=[rin, [rin]])
    return fails, info


DEAD_KEY = 'C01.denotation:dead-code-elimination-breaks-live-units'


def prune_dead(prog, numvals=None):
    """The same program without the nodes no output reaches.  numvals: node
    index -> Python number the node evaluated to when the function ran (e.g.
    `x * 0`); such nodes are first replaced by that constant, which leaves the
    objects the graph function hands to the library unchanged but makes the
    operands they no longer use visible as dead."""
    if numvals:
        nodes = [['const', numvals[i]] if i in numvals and nd[0] not in
                 ('const', 'ctl', 'osc') else nd
                 for i, nd in enumerate(prog['nodes'])]
        prog = dict(prog, nodes=nodes)
    return _renumber(prog, gg.live_nodes(prog))


def check_program(prog, name='c01'):
    """-> (failures, info).  Keys of units/denotation failures are chosen by an
    experiment on the program itself: if the program has dead code and the
    same program without its dead nodes passes, the dead code is what breaks
    it (DEAD_KEY); otherwise the key follows the shape of the live graph."""
    fails, info = _check_once(prog, name)
    pruned = None
    if any(_family(f) == 'graph' for f in fails):
        pruned = prune_dead(prog, info.get('numvals'))
    if pruned is not None and len(pruned['nodes']) < len(prog['nodes']):
        f2, _ = _check_once(pruned, name)
        if not any(_family(f) in ('graph', 'compile') for f in f2):
            for f in fails:
                if _family(f) == 'graph':
                    f['key'] = DEAD_KEY
        else:
            k2 = [f['key'] for f in f2 if _family(f) == 'graph']
            if k2:
                for f in fails:
                    if _family(f) == 'graph':
                        f['key'] = k2[0]
    return fails, info


# ---------------------------------------------------------------------------
# scopes

OPS4 = ('add', 'sub', 'mul', 'div', 'neg')
OPS3 = ('add', 'sub', 'mul', 'neg')
OPS2 = ('add', 'sub', 'neg')
WIDE = ('add', 'sub', 'mul', 'div', 'neg', 'madd', 'sum2', 'sum3')


def scopes(tier):
    """(name, alphabet, opsets, outsets, extra_dead)"""
    s = [
        # one operator node, every operator, the full alphabet
        ('m1-full', 'ABKLRP012mhzf', [WIDE], ('last', 'pair0'), ()),
        ('m1-full-dead', 'ABKLRP012mhzf', [WIDE], ('last',), ('k', 'a')),
        ('m1-sum45', 'AKP01m', [('sum4', 'sum5')], ('last',), ()),
        # two operator nodes
        ('m2-binary', 'AKP01m2', [OPS4, OPS4],
         ('last', 'first+last', 'pair'), ()),
        ('m2-fused', 'AP1m', [WIDE, WIDE], ('last', 'first+last'), ()),
        # three
        ('m3', 'AK2', [OPS3, OPS3, OPS3], ('last',), ()),
        ('m3-shared', 'AK', [OPS3, OPS3, OPS3], ('first+last',), ()),
        # four
        ('m4', 'A', [OPS2, OPS2, OPS2, OPS2],
         ('last', 'second', 'mid+last', 'all'), ()),
    ]
    if tier != 'quick':
        s += [
            ('m2-binary-wide', 'ABKLRP012mh', [OPS4, OPS4],
             ('last', 'first+last'), ()),
            ('m2-fused-wide', 'AKP1m', [WIDE, WIDE], ('last', 'first+last'), ()),
            ('m3-outs', 'AK2', [OPS3, OPS3, OPS3], ('first+last', 'mid+last'), ()),
            ('m3-ctl', 'APm', [OPS2, OPS3, OPS2], ('last',), ()),
            ('m3-wide', 'AKPm', [OPS3, OPS3, OPS3], ('last',), ()),
            ('m3-fused', 'AK2', [WIDE, ('add', 'sub', 'mul', 'neg', 'madd'),
                                 OPS3], ('last',), ()),
            ('m4-mul', 'A', [OPS3, OPS3, OPS3, OPS3],
             ('last', 'second', 'mid+last'), ()),
            ('m4-two', 'AK', [OPS2, OPS2, OPS2, OPS2], ('last',), ()),
            ('m5', 'A', [('add', 'neg'), OPS2, OPS2, OPS2, OPS2], ('last',), ()),
        ]
    return s


def _hash(prog):
    return hashlib.blake2b(gg.prog_key(prog).encode(), digest_size=8).digest()


def _run_programs(it, res):
    for label, prog in it:
        ok, _ = gg.wellformed(prog)
        if not ok:
            res['rejected'] += 1
            continue
        res['n'] += 1
        fails, info = check_program(prog)
        if info['nontrivial']:
            res['hashes'].add(_hash(prog))
        for nm in info['unknown_units']:
            res['unknown'][nm] = res['unknown'].get(nm, 0) + 1
        if len(res['samples']) < 2 and info['nontrivial']:
            res['samples'].append(prog)
        for f in fails:
            lst = res['fails'].setdefault(f['key'], [])
            lst.append((gg.prog_size(prog), label, prog, f))
            lst.sort(key=lambda t: t[0])
            del lst[4:]


def _new_res():
    return {'n': 0, 'rejected': 0, 'hashes': set(), 'fails': {},
            'samples': [], 'unknown': {}}


def _task(args):
    kind = args[0]
    res = _new_res()
    if kind == 'scope':
        _, tier, si, k, n = args
        nm, alpha, opsets, outsets, dead = scopes(tier)[si]
        it = (('%s#%d' % (nm, idx), p) for idx, p in gg.scope_programs(
            alpha, opsets, outsets, stride=(k, n), extra_dead=dead))
        _run_programs(it, res)
    elif kind == 'random':
        _, seed, count, max_ops = args
        rng = random.Random(seed)

        def gen():
            for j in range(count):
                p, rej = gg.random_wellformed(rng, max_ops=max_ops)
                res['rejected'] += rej
                yield ('random seed=%d #%d' % (seed, j), p)
        _run_programs(gen(), res)
    return args, res


def _merge(total, res):
    total['n'] += res['n']
    total['rejected'] += res['rejected']
    total['hashes'] |= res['hashes']
    for k, v in res['unknown'].items():
        total['unknown'][k] = total['unknown'].get(k, 0) + v
    if len(total['samples']) < 4:
        total['samples'].extend(res['samples'][:1])
    for k, lst in res['fails'].items():
        t = total['fails'].setdefault(k, [])
        t.extend(lst)
        t.sort(key=lambda x: x[0])
        del t[6:]


# ---------------------------------------------------------------------------
# shrinking (random programs only; the exhaustive scopes are already minimal)

def _renumber(prog, keep):
    m = {}
    nodes = []
    for i, nd in enumerate(prog['nodes']):
        if i in keep:
            m[i] = len(nodes)
            nodes.append(nd)
    out_nodes = []
    for nd in nodes:
        k = nd[0]
        if k in ('const', 'ctl', 'osc'):
            out_nodes.append(list(nd))
        elif k == 'sum':
            out_nodes.append(['sum', [m[j] for j in nd[1]]])
        else:
            out_nodes.append([k] + [m[j] for j in nd[1:]])
    outs = [{'chans': [m[j] for j in o['chans']]} for o in prog['outs']]
    return {'params': prog['params'], 'nodes': out_nodes, 'outs': outs}


def _variants(prog):
    n = len(prog['nodes'])
    # drop an output / a channel
    if len(prog['outs']) > 1:
        for i in range(len(prog['outs'])):
            yield dict(prog, outs=prog['outs'][:i] + prog['outs'][i + 1:])
    for i, o in enumerate(prog['outs']):
        if len(o['chans']) > 1:
            for c in range(len(o['chans'])):
                outs = [dict(x) for x in prog['outs']]
                outs[i] = {'chans': o['chans'][:c] + o['chans'][c + 1:]}
                yield dict(prog, outs=outs)
    # remove a node nothing uses
    used = set(j for nd in prog['nodes'] for j in gg.operands(nd))
    used |= set(j for o in prog['outs'] for j in o['chans'])
    for i in range(n - 1, -1, -1):
        if i not in used:
            yield _renumber(prog, set(range(n)) - {i})
    # replace an operator node by one of its operands
    for i in range(n - 1, -1, -1):
        for j in gg.operands(prog['nodes'][i]):
            nodes = []
            for t, nd in enumerate(prog['nodes']):
                k = nd[0]
                if t <= i or k in ('const', 'ctl', 'osc'):
                    nodes.append(nd)
                elif k == 'sum':
                    nodes.append(['sum', [j if x == i else x for x in nd[1]]])
                else:
                    nodes.append([k] + [j if x == i else x for x in nd[1:]])
            outs = [{'chans': [j if x == i else x for x in o['chans']]}
                    for o in prog['outs']]
            yield {'params': prog['params'], 'nodes': nodes, 'outs': outs}
    # shorten a sum
    for i, nd in enumerate(prog['nodes']):
        if nd[0] == 'sum' and len(nd[1]) > 2:
            for c in range(len(nd[1])):
                nodes = list(prog['nodes'])
                nodes[i] = ['sum', nd[1][:c] + nd[1][c + 1:]]
                yield dict(prog, nodes=nodes)


def _family(f):
    c = f['clause']
    if c in ('C01.units', 'C01.denotation'):
        return 'graph'
    return c.split('.', 1)[1]


def shrink(prog, key, budget=600):
    """Greedy: smaller well-formed variants that still fail with the same
    key."""
    cur = prog
    improved = True
    while improved and budget > 0:
        improved = False
        for v in _variants(cur):
            budget -= 1
            if budget <= 0:
                break
            ok, _ = gg.wellformed(v)
            if not ok:
                continue
            fails, _ = check_program(v)
            if any(f['key'] == key for f in fails):
                cur = v
                improved = True
                break
    return cur


# ---------------------------------------------------------------------------

def main(rep):
    silence_sc3_logging()
    if not wants(rep, 'compile'):
        return
    tier = rep.tier
    quick = tier == 'quick'
    nproc = NPROC
    tasks = []
    sc = scopes(tier)
    nsplit = 16 if quick else 64
    for si in range(len(sc)):
        for k in range(nsplit):
            tasks.append(('scope', tier, si, k, nsplit))
    nrand = 30000 if quick else 500000
    batch = 500 if quick else 4000
    base = rep.rng.randrange(1 << 30)
    for b in range(nrand // batch):
        max_ops = (6, 10, 14, 20)[b % 4]
        tasks.append(('random', base + b, batch, max_ops))
    per_scope = {}
    rnd = _new_res()
    ctx = mp.get_context('fork')
    with ctx.Pool(nproc, initializer=_init_sc3) as pool:
        for args, res in pool.imap_unordered(_task, tasks, chunksize=1):
            if args[0] == 'scope':
                tot = per_scope.setdefault(args[2], _new_res())
            else:
                tot = rnd
            _merge(tot, res)
    # violations: the smallest candidates of every key, shrunk (same key)
    allfails = {}
    for tot in list(per_scope.values()) + [rnd]:
        for k, lst in tot['fails'].items():
            allfails.setdefault(k, []).extend(lst)
    if allfails:
        _init_sc3()
    for k in sorted(allfails):
        lst = sorted(allfails[k], key=lambda t: (t[0], t[1]))
        final = []
        seen = set()
        for size, label, prog, f in lst[:3]:
            small = shrink(prog, k)
            if gg.prog_size(small) < size:
                label += ' (shrunk)'
                fs, _ = check_program(small)
                f = [x for x in fs if x['key'] == k][0]
            pk = gg.prog_key(small)
            if pk not in seen:
                seen.add(pk)
                final.append((gg.prog_size(small), label, small, f))
        for size, label, prog, f in sorted(final, key=lambda t: (t[0], t[1])):
            rep.violation(obligation=f['clause'],
                          what='%s  [%s]\n%s' % (f['what'], label,
                                                 gg.render(prog)),
                          input=prog, observed=f['observed'],
                          expected=f['expected'], key=k,
                          replay={'func': 'program', 'args': prog})
    unknown = {}
    for si, (nm, alpha, opsets, outsets, dead) in enumerate(sc):
        tot = per_scope.get(si, _new_res())
        for kk, v in tot['unknown'].items():
            unknown[kk] = unknown.get(kk, 0) + v
        rep.bounded(
            name='compile/' + nm, function='sc3.synth.synthdef.SynthDef.__init__ / as_bytes',
            bound='every program of %d operator node(s), operators %s, operands '
                  'from symbols %s (%s) and earlier nodes, outputs %s%s' % (
                      len(opsets), [list(o) for o in opsets], alpha,
                      ', '.join('%s=%s' % (c, gg.SYMBOLS[c]) for c in alpha),
                      list(outsets),
                      ', plus unreferenced leaves %s' % (list(dead),) if dead else ''),
            evaluations=tot['n'], distinct_nontrivial=len(tot['hashes']),
            rule='itertools.product over operator/operand choices; programs '
                 'without a denotation over the reals (x/0, non-dyadic folded '
                 'constants) are skipped (%d skipped); non-trivial = the source '
                 'has dead code or the definition contains an arithmetic unit'
                 % tot['rejected'],
            samples=tot['samples'], exhaustive=True)
    for kk, v in rnd['unknown'].items():
        unknown[kk] = unknown.get(kk, 0) + v
    rep.bounded(
        name='compile/random', function='sc3.synth.synthdef.SynthDef.__init__ / as_bytes',
        bound='%d seeded random programs: 2-6+ leaves, up to 6/10/14/20 '
              'operator nodes (+ - * / neg madd sum2..5, 5%% mod/pow/abs), '
              'sharing, x op x, 1-3 outputs of 1-3 channels, dead code' % nrand,
        evaluations=rnd['n'], distinct_nontrivial=len(rnd['hashes']),
        rule='graphgen.random_program from seeds %d..%d; ill-formed draws are '
             'redrawn (%d redrawn); non-trivial as above' % (
                 base, base + nrand // batch - 1, rnd['rejected']),
        samples=rnd['samples'], exhaustive=False)
    if unknown:
        rep.note('units of classes outside the oracle tables appeared in '
                 'definitions (not judged): %r' % (unknown,))
    rep.note('Out rate is chosen from the public .rate of the channel values '
             '(audio -> Out.ar, else Out.kr): whether `k + s*0` is audio or '
             'control rate is left open; the rate clause is checked on the '
             'emitted units only.')


def replay(case, rep):
    _init_sc3()
    prog = case['replay']['args']
    ok, why = gg.wellformed(prog)
    if not ok:
        rep.note('recorded program is not well formed: ' + why)
        return True
    fails, _ = check_program(prog)
    for f in fails:
        if f['key'] == case.get('key') or case.get('key') is None:
            rep.violation(obligation=f['clause'], what=f['what'], input=prog,
                          observed=f['observed'], expected=f['expected'],
                          key=f['key'], replay=case['replay'])
    return not rep.violations


if __name__ == '__main__':
    driver_main('C01', main, replay)
